#!/bin/bash
# Runs, for every seeded change, the quick check of its property against a scratch copy of the repository with
# the change applied, and records the outcome in seeded/<id>/meta.json. /repo itself is not touched:
# the work happens in /tmp/sweep (a git worktree of /repo HEAD plus a copy of /verif whose harness points at it).
# usage: tools/sweep_seeds.sh [seed-dir-name ...]   (default: all)
set -u
W=${SWEEP_DIR:-/tmp/sweep}
rm -rf $W/verif
mkdir -p $W
if [ ! -d $W/repo ]; then git -C /repo worktree add -q --detach $W/repo HEAD || exit 2; fi
git -C $W/repo checkout -q --detach $(git -C /repo rev-parse HEAD) && git -C $W/repo checkout -- . && git -C $W/repo clean -fdq
rsync -a --exclude target --exclude failures --exclude .git /verif/ $W/verif/
sed -i "s|/repo/crates|$W/repo/crates|g" $W/verif/harness/Cargo.toml
export EBV_REPO_DIR=$W/repo CARGO_TARGET_DIR=$W/target
mkdir -p $W/verif/harness/target && ln -sfn $W/target/checked $W/verif/harness/target/checked && ln -sfn $W/target/release $W/verif/harness/target/release
seeds=${@:-$(ls /verif/seeded)}
for s in $seeds; do
  prop=${s%%-*}
  extra=""
  case $s in C03-*) extra="C01";; C19-a) extra="C17";; esac
  if ! git -C $W/repo apply /verif/seeded/$s/patch.diff 2>/dev/null; then echo "$s: patch does not apply"; continue; fi
  res=""
  for p in $prop $extra; do
    out=$(cd $W/verif && ./check $p quick 2>/dev/null)
    code=$?
    sig=$(echo "$out" | grep -m1 -o "signature=[^ ]*" | cut -d= -f2)
    sub=$(echo "$out" | grep -m1 -o "subcheck=[^ ]*" | cut -d= -f2)
    res="$res{\"check\":\"./check $p quick\",\"exit\":$code,\"subcheck\":\"$sub\",\"signature\":\"$sig\"},"
    echo "$s -> $p: exit=$code $sub $sig"
  done
  git -C $W/repo checkout -- .
  python3 - "$s" "[${res%,}]" <<'PY'
import json,sys
p=f'/verif/seeded/{sys.argv[1]}/meta.json'
m=json.load(open(p)); m['checks_run']=json.loads(sys.argv[2]); m['detected']=any(c['exit']==1 for c in m['checks_run'])
json.dump(m,open(p,'w'),indent=1)
PY
done
