#!/usr/bin/env python3
# Dev-time generator for harness/src/model/ops.rs from golden/opcodes.json (frozen at the pinned commit).
import json
ops=json.load(open('/verif/golden/opcodes.json'))
o=[]
o.append("// GENERATED once by tools/gen_ops.py from golden/opcodes.json (the pinned opcode table). Do not regenerate from asm.yml:\n// this file is the harness's independent, frozen view of the instruction set.\n")
o.append("use serde::{Deserialize, Serialize};\nuse essential_asm as asm;\nuse essential_asm::Op;\n")
o.append("#[allow(non_camel_case_types, clippy::upper_case_acronyms)]\n#[derive(Clone, Copy, Debug, PartialEq, Eq, Hash, PartialOrd, Ord, Serialize, Deserialize)]\npub enum MOp {")
for x in ops:
    o.append(f"    {x['short']}{'(i64)' if x['args'] else ''},")
o.append("}\n")
o.append(f"pub const N_OPS: usize = {len(ops)};")
o.append("/// (group, name, opcode, short, immediate bytes)\npub const TABLE: [(&str, &str, u8, &str, usize); N_OPS] = [")
for x in ops:
    o.append(f"    (\"{x['group']}\", \"{x['name']}\", 0x{x['opcode']:02X}, \"{x['short']}\", {x['args']}),")
o.append("];\n")
o.append("pub const ALL: [MOp; N_OPS] = [")
for x in ops:
    o.append(f"    MOp::{x['short']}{'(0)' if x['args'] else ''},")
o.append("];\n")
o.append("impl MOp {")
o.append("    pub fn index(&self) -> usize {\n        match self {")
for i,x in enumerate(ops):
    o.append(f"            MOp::{x['short']}{'(_)' if x['args'] else ''} => {i},")
o.append("        }\n    }")
o.append("    pub fn opcode(&self) -> u8 { TABLE[self.index()].2 }")
o.append("    pub fn group(&self) -> &'static str { TABLE[self.index()].0 }")
o.append("    pub fn name(&self) -> &'static str { TABLE[self.index()].1 }")
o.append("    pub fn short(&self) -> &'static str { TABLE[self.index()].3 }")
o.append("    pub fn from_opcode(b: u8) -> Option<MOp> {\n        match b {")
for x in ops:
    o.append(f"            0x{x['opcode']:02X} => Some(MOp::{x['short']}{'(0)' if x['args'] else ''}),")
o.append("            _ => None,\n        }\n    }")
o.append("    /// The real op, written out by full enum path.\n    pub fn to_real(&self) -> Op {\n        match *self {")
for x in ops:
    if x['args']:
        o.append(f"            MOp::{x['short']}(w) => Op::{x['group']}(asm::{x['group']}::{x['name']}(w)),")
    else:
        o.append(f"            MOp::{x['short']} => Op::{x['group']}(asm::{x['group']}::{x['name']}),")
o.append("        }\n    }")
o.append("    /// The real op, via the `short` constants.\n    pub fn to_real_short(&self) -> Op {\n        match *self {")
for x in ops:
    if x['args']:
        o.append(f"            MOp::{x['short']}(w) => asm::short::{x['short']}(w),")
    else:
        o.append(f"            MOp::{x['short']} => asm::short::{x['short']},")
o.append("        }\n    }")
o.append("    pub fn from_real(op: &Op) -> MOp {\n        match *op {")
for x in ops:
    if x['args']:
        o.append(f"            Op::{x['group']}(asm::{x['group']}::{x['name']}(w)) => MOp::{x['short']}(w),")
    else:
        o.append(f"            Op::{x['group']}(asm::{x['group']}::{x['name']}) => MOp::{x['short']},")
o.append("        }\n    }")
o.append("}")
open('/verif/harness/src/model/ops.rs','w').write("\n".join(o)+"\n")
