#!/bin/bash
# For every fix commit: revert it in /repo's working tree, run the property's quick check, keep the (shrunk)
# failure as a regression input, restore /repo. Dev-time tool; regressions/ is committed.
cd /verif
while read commit prop name; do
  [ -z "$commit" ] && continue
  git -C /repo show $commit | git -C /repo apply -R || { echo "cannot revert $commit"; continue; }
  rm -rf failures
  out=$(./check $prop quick 2>/dev/null); code=$?
  git -C /repo checkout -- .
  f=$(echo "$out" | grep -m1 -o "replay=[^ ]*" | cut -d= -f2)
  echo "$commit $prop exit=$code $(echo "$out" | grep -m1 -o 'signature=[^ ]*')"
  if [ -n "$f" ] && [ -f "$f" ]; then mkdir -p regressions/$prop; cp "$f" regressions/$prop/$name.json; fi
done <<LIST
dd0f968 C01 F-C01-find_deferred-not-transitive
dd0f968 C03 F-C01-find_deferred-not-transitive
934d7f2 C04 F-C04-same-slot-in-two-solutions
836f30d C16 F-C16-computed-mutation-on-declared-key
836f30d C04 F-C04b-computed-vs-declared-order
61ff3be C05 F-C05a-jumpif-min-distance
d404f29 C07 F-C07-compute-gas-over-limit
94dca1c C06 F-C06a-decode_mutation-index
6454152 C06 F-C06b-decode_mutations-prealloc
10243c9 C17 F-C17-encoded_size
6a366bc C06 F-C06c-post-read-huge-count
b6b9ad6 C15 F-C15-analyze-post-reads
LIST
git -C /repo status --short | head -3
ls -R regressions | head -40
