#!/usr/bin/env python3
"""Regenerates /verif/MANIFEST.json from tools/manifest_checks.json (per-property texts) and the list of
implemented properties (the `ids()` registry in harness/src/props/mod.rs)."""
import json, re, sys
ids = re.findall(r'"(C\d\d)"', re.search(r'pub fn ids\(\).*?\{(.*?)\}', open('/verif/harness/src/props/mod.rs').read(), re.S).group(1))
texts = json.load(open('/verif/tools/manifest_checks.json'))
props = [json.loads(l) for l in open('/verif/properties.jsonl')]
checks, na = [], []
for p in props:
    i = p['id']
    if i in ids and i in texts:
        t = texts[i]
        checks.append({
            "property_id": i,
            "quick_cmd": f"./check {i} quick",
            "thorough_cmd": f"./check {i} thorough",
            "evidence_file": f"/verif/evidence/{i}.json",
            "replay_cmd_template": "./check replay {path}",
            "engine": "ebv",
            "level_claimed": {"category": "exploration", "text": t["level_text"], "design_ref": t.get("design_ref", "DESIGN.md §5 " + i)},
            "level_note": t["level_note"],
            "technique": t["technique"],
        })
    else:
        na.append({"property_id": i, "reason": texts.get(i, {}).get("na_reason", "check not built yet in this round (planned, see DESIGN.md §5); property-based testing applies")})
m = {
    "version": 1,
    "setup_cmd": "./check build",
    "hooks": {
        "guard": "essential_base_verif",
        "enable": "none needed: no hooks were added to /repo; checks build the harness crate /verif/harness, which path-depends on /repo/crates/* and therefore recompiles the current working tree",
        "baseline_off_cmd": "cd /repo && cargo test --workspace --no-fail-fast --offline",
        "source_commits": [],
        "add_only": True,
    },
    "engines": [
        {"name": "ebv", "path": "/verif/harness", "serves_properties": ids,
         "kind_free_text": "Rust harness crate: proptest-driven and bounded-exhaustive sub-checks against independent reference models (RefVm, RefGraph, RefCodec), supervisor/worker split for aborts and hangs, two arithmetic profiles (overflow-checks on/off)"},
    ],
    "checks": checks,
    "not_applicable": na,
    "notes": "All checks: exit 0 = held on everything explored (KNOWN-FINDING lines possible), exit 1 = 'VIOLATION property=<id> replay=<path>', exit 2 = inconclusive (build failure, watchdog, degenerate generator). VERIF_SEED selects the proptest seeds. Fix commits in /repo are listed in known_findings.json as 'fixed'.",
}
json.dump(m, open('/verif/MANIFEST.json', 'w'), indent=1)
print("checks:", [c["property_id"] for c in checks], "na:", [n["property_id"] for n in na])
