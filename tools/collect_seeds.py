#!/usr/bin/env python3
"""Copies confirmed seeded changes from /tmp/seed-*/ into /verif/seeded/<id>-<x>/ with a meta.json."""
import json, os, shutil, glob, re
for conf in sorted(glob.glob('/tmp/confirm/C*-[a-j].json')):
    name = os.path.basename(conf)[:-5]
    pid, x = name.split('-')
    src = f"/tmp/seed{ {'a':'','b':'','c':'2','d':'2','e':'3','f':'3','g':'4','h':'4','i':'5','j':'5'}[x] }-{pid}/{x}"
    if not os.path.isdir(src):
        src = f"/tmp/seed6-{pid}/{x}"
    c = json.load(open(conf))
    ok = c.get('applies') and c.get('suite_pass_fail') == '246 0' and c.get('demo_exit_with_patch') not in (0, None) and c.get('demo_exit_without_patch') == 0
    if not ok:
        print('NOT CONFIRMED', name, c); continue
    dst = f'/verif/seeded/{name}'
    os.makedirs(dst, exist_ok=True)
    for f in ('patch.diff', 'demo.rs', 'notes.md'):
        shutil.copy(f'{src}/{f}', f'{dst}/{f}')
    notes = open(f'{src}/notes.md').read()
    meta_path = f'{dst}/meta.json'
    meta = json.load(open(meta_path)) if os.path.exists(meta_path) else {}
    meta.update({
        'property': pid,
        'source': 'independent sub-agent given only the property text and a scratch worktree',
        'demo_location': f"crates/{c['crate']}/tests/seed_demo.rs",
        'needs_to_manifest': meta.get('needs_to_manifest', 'see notes.md'),
        'confirmed': {
            'how': 'tools/confirm_seed.sh in a scratch worktree of /repo HEAD: git apply patch; cargo test --workspace --no-fail-fast --offline; demo with patch; demo without patch',
            'suite_with_patch_pass_fail': c['suite_pass_fail'],
            'demo_exit_with_patch': c['demo_exit_with_patch'],
            'demo_exit_without_patch': c['demo_exit_without_patch'],
        },
    })
    json.dump(meta, open(meta_path, 'w'), indent=1)
    print('ok', name)
