#!/bin/bash
# Confirms a seeded change in a scratch worktree: suite green with patch, demo red with patch, demo green without.
# usage: confirm_seed.sh <seed dir containing patch.diff demo.rs notes.md> <out json>
set -u
SEED=$1; OUT=$2
WT=/tmp/wt-confirm
export CARGO_NET_OFFLINE=true CARGO_TARGET_DIR=/tmp/wt-confirm-target
if [ ! -d $WT ]; then git -C /repo worktree add -q --detach $WT HEAD || exit 2; fi
cd $WT && git checkout -q --detach $(git -C /repo rev-parse HEAD) && git checkout -- . && git clean -fdq
crate=$(grep -oE "crates/[a-z-]+/tests/[a-z_]+\.rs" $SEED/notes.md | head -1 | cut -d/ -f2)
[ -z "$crate" ] && crate=$(grep -oE "crates/[a-z-]+/tests" $SEED/notes.md | head -1 | cut -d/ -f2)
[ -z "$crate" ] && { echo "{\"error\":\"no crate found\"}" > $OUT; exit 2; }
applies=true; git apply --check $SEED/patch.diff 2>/dev/null || applies=false
if [ $applies = false ]; then echo "{\"applies\":false}" > $OUT; exit 1; fi
git apply $SEED/patch.diff
suite=$(cargo test --workspace --no-fail-fast --offline 2>&1 | grep -E "^test result" | awk '{p+=$4; f+=$6} END {print p" "f}')
mkdir -p crates/$crate/tests; cp $SEED/demo.rs crates/$crate/tests/seed_demo.rs
cargo test -p essential-$crate --test seed_demo --offline >/tmp/confirm/demo_with.log 2>&1; with=$?
git apply -R $SEED/patch.diff
cargo test -p essential-$crate --test seed_demo --offline >/tmp/confirm/demo_without.log 2>&1; without=$?
rm -f crates/$crate/tests/seed_demo.rs; git checkout -- .
echo "{\"applies\":true,\"crate\":\"$crate\",\"suite_pass_fail\":\"$suite\",\"demo_exit_with_patch\":$with,\"demo_exit_without_patch\":$without}" > $OUT
cat $OUT
