#!/usr/bin/env python3
"""Renders the seeded-change table into DESIGN.md between the SEED-TABLE markers from seeded/*/meta.json."""
import json, glob, os, re
rows = ["| seed | site (from notes) | needs to manifest | caught by (quick tier) |", "|---|---|---|---|"]
for d in sorted(glob.glob('/verif/seeded/*')):
    name = os.path.basename(d)
    m = json.load(open(d + '/meta.json'))
    diff = open(d + '/patch.diff').read()
    files = sorted(set(re.findall(r'^\+\+\+ b/(\S+)', diff, re.M)))
    needs = m.get('needs_to_manifest', 'see notes.md')
    runs = m.get('checks_run', [])
    caught = '; '.join(f"{c['check'].replace('./check ','')} → `{c['subcheck']}` ({c['signature']})" for c in runs if c['exit'] == 1)
    if not caught:
        if any(c['exit'] == 2 for c in runs):
            caught = 'no violation line: exit 2 (inconclusive, progress watchdog) - the change makes the workload hang'
        elif not runs:
            caught = '(not swept yet)'
        else:
            caught = '**not detected**'
    rows.append(f"| {name} | {', '.join(f.replace('crates/','') for f in files)} | {needs} | {caught} |")
p = '/verif/DESIGN.md'
s = open(p).read()
a, b = s.index('<!-- SEED-TABLE-BEGIN -->'), s.index('<!-- SEED-TABLE-END -->')
s = s[:a] + '<!-- SEED-TABLE-BEGIN -->\n' + '\n'.join(rows) + '\n' + s[b:]
open(p, 'w').write(s)
print(len(rows) - 2, 'rows')
