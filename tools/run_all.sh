#!/bin/bash
# Runs every registered check of the given tier once; prints one line per property with exit code and time.
cd /verif; tier=${1:-quick}; ./check build || exit 2
for i in $(seq -w 1 20); do
  s=$(date +%s.%N); out=$(./harness/target/checked/ebv run C$i $tier 2>&1); code=$?; e=$(date +%s.%N)
  printf "C%s exit=%s %.1fs %s\n" $i $code $(echo "$e - $s" | bc) "$(echo "$out" | grep -E "VIOLATION|INCONCLUSIVE" | head -2 | tr '\n' ' ')"
done
