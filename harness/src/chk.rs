//! Drivers for the real checker (`essential_check::solution`) and comparison with RefGraph.

use crate::doubles::{Addr, Log, Req, StErr, View, ViewImpl, ViewSpec};
use crate::engine::{no_panic, Violation};
use crate::model::asm as refasm;
use crate::model::codec;
use crate::model::graph::{overlay_read, GraphCase, Overlay, RefTrace, RefVerdict, SolFail, LEAF};
use crate::{ensure, viol};
use essential_check::solution::{
    check_and_compute_solution_set, check_and_compute_solution_set_two_pass, check_set_predicates, CheckPredicateConfig, DataOutput, Outputs,
    PredicateError, PredicatesError, RunMode,
};
use essential_types::predicate::{Node, Predicate, Program};
use essential_types::solution::{Mutation, Solution, SolutionSet};
use essential_types::{ContentAddress, Key, PredicateAddress, Word};
use essential_vm::StateRead;
use std::collections::{BTreeMap, BTreeSet, HashMap};
use std::sync::Arc;

pub const TRACE: i64 = 0x7472_6163_6500_0001; // "trace" magic, never used as a key word otherwise

pub struct World {
    pub prog_addr: Vec<Addr>,
    pub pred_addr: Vec<Addr>,
    pub programs: HashMap<ContentAddress, Arc<Program>>,
    pub predicates: HashMap<PredicateAddress, Arc<Predicate>>,
    pub preds: Vec<Predicate>,
    pub set: SolutionSet,
}

pub fn build_world(case: &GraphCase) -> World {
    let mut programs = HashMap::new();
    let mut prog_addr = Vec::new();
    for (pi, p) in case.programs.iter().enumerate() {
        let bytes = case.raw_programs.iter().find(|(i, _)| *i == pi).map(|(_, b)| b.clone()).unwrap_or_else(|| refasm::encode(p));
        let prog = Program(bytes);
        let a = essential_hash::content_addr(&prog);
        prog_addr.push(a.0);
        programs.insert(a, Arc::new(prog));
    }
    let mut preds = Vec::new();
    let mut pred_addr = Vec::new();
    for p in &case.predicates {
        let pred = Predicate {
            nodes: p
                .nodes
                .iter()
                .map(|n| Node {
                    edge_start: n.edge_start,
                    program_address: ContentAddress(prog_addr[n.prog]),
                })
                .collect(),
            edges: p.edges.clone(),
        };
        // address = sha256 of the documented encoding (computed by RefCodec; oversize predicates get a synthetic address)
        let enc = codec::encode_predicate(&codec::pred_spec_nodes(p, &prog_addr), &p.edges);
        pred_addr.push(codec::sha256(&enc));
        preds.push(pred);
    }
    let mut predicates = HashMap::new();
    let mut solutions = Vec::new();
    for s in &case.solutions {
        let addr = PredicateAddress {
            contract: ContentAddress(s.contract),
            predicate: ContentAddress(pred_addr[s.pred]),
        };
        predicates.insert(addr.clone(), Arc::new(preds[s.pred].clone()));
        solutions.push(Solution {
            predicate_to_solve: addr,
            predicate_data: s.data.clone(),
            state_mutations: s
                .mutations
                .iter()
                .map(|(k, v)| Mutation {
                    key: k.clone(),
                    value: v.clone(),
                })
                .collect(),
        });
    }
    World {
        prog_addr,
        pred_addr,
        programs,
        predicates,
        preds,
        set: SolutionSet { solutions },
    }
}

/// Post view built by the harness for the single-pass entry points: overlay over the (recording) pre view.
#[derive(Clone)]
pub struct OverlayView {
    pub pre: View,
    pub overlay: Arc<Overlay>,
}

impl StateRead for OverlayView {
    type Error = StErr;
    fn key_range(&self, c: ContentAddress, key: Key, n: usize) -> Result<Vec<Vec<Word>>, StErr> {
        let imp: &ViewImpl = &self.pre.imp;
        if let Some(d) = &self.pre.delay {
            crate::doubles::spin(d.delay_for(&key, n));
        }
        overlay_read(imp, &self.overlay, &c.0, &key, n).map_err(StErr)
    }
}

#[derive(Clone, Debug, PartialEq, Eq)]
pub enum RealSolFail {
    InvalidGraph(usize),
    Programs(BTreeSet<usize>),
    Unsatisfied(BTreeSet<usize>),
    Mutations(String),
}

#[derive(Clone, Debug, PartialEq, Eq)]
pub enum RealErr {
    Failed(BTreeMap<usize, RealSolFail>),
    GasOverflowed,
    ExistingMutations,
}

pub fn parse_program_error_nodes(rendered: &str) -> BTreeSet<usize> {
    let mut out = BTreeSet::new();
    for line in rendered.lines() {
        if let Some(rest) = line.strip_prefix("  ") {
            if rest.starts_with(' ') {
                continue;
            }
            if let Some((num, _)) = rest.split_once(':') {
                if !num.is_empty() && num.chars().all(|c| c.is_ascii_digit()) {
                    if let Ok(n) = num.parse() {
                        out.insert(n);
                    }
                }
            }
        }
    }
    out
}

pub fn convert_err(e: PredicatesError<StErr>) -> RealErr {
    match e {
        PredicatesError::GasOverflowed => RealErr::GasOverflowed,
        PredicatesError::ExistingMutations => RealErr::ExistingMutations,
        PredicatesError::Failed(errs) => {
            let mut m = BTreeMap::new();
            for (ix, e) in errs.0 {
                let f = match e {
                    PredicateError::InvalidNodeEdges(n) => RealSolFail::InvalidGraph(n),
                    PredicateError::ProgramErrors(pe) => RealSolFail::Programs(parse_program_error_nodes(&format!("{pe}"))),
                    PredicateError::ConstraintsUnsatisfied(c) => RealSolFail::Unsatisfied(c.0.into_iter().collect()),
                    PredicateError::Mutations(me) => RealSolFail::Mutations(format!("{me}")),
                };
                m.insert(ix as usize, f);
            }
            RealErr::Failed(m)
        }
    }
}

pub fn outputs_to_mems(o: &Outputs, nsol: usize) -> Vec<Vec<Vec<i64>>> {
    let mut v = vec![vec![]; nsol];
    for d in &o.data {
        for x in &d.data {
            let DataOutput::Memory(m) = x;
            v[d.solution_index as usize].push(m.to_vec());
        }
    }
    for x in v.iter_mut() {
        x.sort();
    }
    v
}

/// What the real checker returned, normalised.
#[derive(Clone, Debug, PartialEq, Eq)]
pub struct RealRun {
    /// Total gas if everything succeeded.
    pub gas: Option<u64>,
    pub error: Option<(u8, RealErr)>,
    /// Data-output memories per pass and solution where the entry point exposes them (mode 1).
    pub outputs: [Option<Vec<Vec<Vec<i64>>>>; 2],
    /// Mutations of the returned set per solution (modes 0 and 2).
    pub final_mutations: Option<Vec<Vec<(Vec<i64>, Vec<i64>)>>>,
}

pub struct RunEnv {
    pub log: Option<Arc<Log>>,
    pub delay: Option<crate::doubles::DelayTable>,
}

fn set_mutations(set: &SolutionSet) -> Vec<Vec<(Vec<i64>, Vec<i64>)>> {
    set.solutions
        .iter()
        .map(|s| s.state_mutations.iter().map(|m| (m.key.clone(), m.value.clone())).collect())
        .collect()
}

/// Run the real checker in the case's entry mode.
pub fn run_real(case: &GraphCase, world: &World, env: &RunEnv) -> Result<RealRun, Violation> {
    let pre_view = View {
        post: false,
        imp: Arc::new(ViewImpl::from_spec(&ViewSpec::Map(case.pre_state.clone()))),
        log: env.log.clone(),
        delay: env.delay.clone(),
    };
    let config = Arc::new(CheckPredicateConfig {
        collect_all_failures: case.collect_all,
    });
    let get_pred = Arc::new(world.predicates.clone());
    let get_prog = Arc::new(world.programs.clone());
    let nsol = case.solutions.len();
    let mut run = RealRun {
        gas: None,
        error: None,
        outputs: [None, None],
        final_mutations: None,
    };
    match case.mode {
        0 => {
            let r = no_panic("check_and_compute_solution_set_two_pass", || {
                check_and_compute_solution_set_two_pass(&pre_view, world.set.clone(), get_pred.clone(), get_prog.clone(), config.clone())
            })?;
            match r {
                Ok((gas, set)) => {
                    run.gas = Some(gas);
                    run.final_mutations = Some(set_mutations(&set));
                }
                Err(e) => run.error = Some((0, convert_err(e))),
            }
        }
        1 => {
            let mut cache = HashMap::new();
            let views1 = (
                pre_view.clone(),
                OverlayView {
                    pre: pre_view.clone(),
                    overlay: Arc::new(Overlay::new()),
                },
            );
            let set = Arc::new(world.set.clone());
            let r1 = no_panic("check_set_predicates(Outputs)", || {
                check_set_predicates(&views1, set.clone(), get_pred.clone(), get_prog.clone(), config.clone(), RunMode::Outputs, &mut cache)
            })?;
            let o1 = match r1 {
                Ok(o) => o,
                Err(e) => {
                    run.error = Some((1, convert_err(e)));
                    return Ok(run);
                }
            };
            let mems1 = outputs_to_mems(&o1, nsol);
            run.outputs[0] = Some(mems1.clone());
            // overlay from declared + decoded pass-1 outputs (the caller compares them with the reference first)
            let mut overlay = Overlay::new();
            let mut set2 = world.set.clone();
            let mut decodable = true;
            for (si, s) in case.solutions.iter().enumerate() {
                for (k, v) in &s.mutations {
                    overlay.insert((s.contract, k.clone()), v.clone());
                }
                for m in &mems1[si] {
                    match codec::decode_mutations_canonical(m) {
                        Some(ms) => {
                            for (k, v) in ms {
                                overlay.insert((s.contract, k.clone()), v.clone());
                                set2.solutions[si].state_mutations.push(Mutation { key: k, value: v });
                            }
                        }
                        None => decodable = false,
                    }
                }
            }
            if !decodable {
                // nothing sensible to continue with (the reference reports a mutation error here)
                run.gas = None;
                return Ok(run);
            }
            let views2 = (
                pre_view.clone(),
                OverlayView {
                    pre: pre_view.clone(),
                    overlay: Arc::new(overlay),
                },
            );
            let r2 = no_panic("check_set_predicates(Checks)", || {
                check_set_predicates(&views2, Arc::new(set2), get_pred.clone(), get_prog.clone(), config.clone(), RunMode::Checks, &mut cache)
            })?;
            match r2 {
                Ok(o2) => {
                    run.outputs[1] = Some(outputs_to_mems(&o2, nsol));
                    run.gas = Some(o1.gas.saturating_add(o2.gas));
                }
                Err(e) => run.error = Some((2, convert_err(e))),
            }
        }
        _ => {
            let mut cache = HashMap::new();
            let views1 = (
                pre_view.clone(),
                OverlayView {
                    pre: pre_view.clone(),
                    overlay: Arc::new(Overlay::new()),
                },
            );
            let r1 = no_panic("check_and_compute_solution_set(Outputs)", || {
                check_and_compute_solution_set(&views1, world.set.clone(), get_pred.clone(), get_prog.clone(), config.clone(), RunMode::Outputs, &mut cache)
            })?;
            let (g1, set1) = match r1 {
                Ok(x) => x,
                Err(e) => {
                    run.error = Some((1, convert_err(e)));
                    return Ok(run);
                }
            };
            let mut overlay = Overlay::new();
            for s in &set1.solutions {
                for m in &s.state_mutations {
                    overlay.insert((s.predicate_to_solve.contract.0, m.key.clone()), m.value.clone());
                }
            }
            let views2 = (
                pre_view.clone(),
                OverlayView {
                    pre: pre_view.clone(),
                    overlay: Arc::new(overlay),
                },
            );
            let r2 = no_panic("check_and_compute_solution_set(Checks)", || {
                check_and_compute_solution_set(&views2, set1, get_pred.clone(), get_prog.clone(), config.clone(), RunMode::Checks, &mut cache)
            })?;
            match r2 {
                Ok((g2, set2)) => {
                    run.gas = Some(g1.saturating_add(g2));
                    run.final_mutations = Some(set_mutations(&set2));
                }
                Err(e) => run.error = Some((2, convert_err(e))),
            }
        }
    }
    Ok(run)
}

fn cmp_sol_fail(case: &GraphCase, si: usize, expect: &SolFail, got: &RealSolFail) -> Result<(), Violation> {
    match (expect, got) {
        (SolFail::InvalidGraph, RealSolFail::InvalidGraph(_)) => Ok(()),
        (SolFail::Unsatisfied(a), RealSolFail::Unsatisfied(b)) => {
            let a: BTreeSet<usize> = a.iter().map(|x| *x as usize).collect();
            ensure!(a == *b, "graph:unsatisfied-set", "solution {si}: unsatisfied leaves {b:?}, reference says {a:?}");
            Ok(())
        }
        (SolFail::Programs { root, downstream }, RealSolFail::Programs(nodes)) => {
            let root: BTreeSet<usize> = root.iter().map(|x| *x as usize).collect();
            let down: BTreeSet<usize> = downstream.iter().map(|x| *x as usize).collect();
            ensure!(!nodes.is_empty(), "graph:failed-nodes", "solution {si}: program failure without node indices");
            if case.collect_all {
                ensure!(
                    root.is_subset(nodes),
                    "graph:failed-nodes",
                    "solution {si}: reported failing nodes {nodes:?} miss root-cause failures {root:?}"
                );
                ensure!(
                    nodes.iter().all(|n| root.contains(n) || down.contains(n)),
                    "graph:failed-nodes",
                    "solution {si}: reported failing nodes {nodes:?} include nodes that neither fail ({root:?}) nor depend on a failure ({down:?})"
                );
            } else {
                ensure!(
                    nodes.is_subset(&root),
                    "graph:failed-nodes",
                    "solution {si}: reported failing nodes {nodes:?} are not root-cause failures {root:?}"
                );
            }
            Ok(())
        }
        _ => Err(viol!(
            "graph:error-class",
            "solution {si}: checker reports {got:?}, reference says {expect:?}"
        )),
    }
}

/// Compare the real run with the reference verdict (C01 / C03 oracle).
pub fn compare(case: &GraphCase, verdict: &RefVerdict, trace: &RefTrace, real: &RealRun) -> Result<(), Violation> {
    let declared: Vec<Vec<(Vec<i64>, Vec<i64>)>> = case.solutions.iter().map(|s| s.mutations.clone()).collect();
    match verdict {
        RefVerdict::Unspecified(_) => Ok(()),
        RefVerdict::Ok { gas, outputs, computed } => {
            if let Some((pass, e)) = &real.error {
                return Err(viol!(
                    "graph:spurious-failure",
                    "the reference semantics accept the set (gas {gas}) but the checker fails in stage {pass}: {e:?}"
                ));
            }
            ensure!(real.gas == Some(*gas), "graph:gas", "total gas {:?}, reference {gas}", real.gas);
            for pass in 0..2 {
                if let Some(o) = &real.outputs[pass] {
                    for (si, mems) in o.iter().enumerate() {
                        let want = if pass == 0 { &outputs[si].0 } else { &outputs[si].1 };
                        ensure!(
                            mems == want,
                            "graph:data-outputs",
                            "solution {si} pass {}: data outputs {mems:?}, reference {want:?}",
                            pass + 1
                        );
                    }
                }
            }
            if let Some(fm) = &real.final_mutations {
                for (si, ms) in fm.iter().enumerate() {
                    let d = &declared[si];
                    ensure!(
                        ms.len() >= d.len() && ms[..d.len()] == d[..],
                        "graph:declared-mutations",
                        "solution {si}: declared mutations changed in the returned set"
                    );
                    let mut c: Vec<_> = ms[d.len()..].to_vec();
                    c.sort();
                    ensure!(
                        c == computed[si],
                        "graph:computed-mutations",
                        "solution {si}: computed mutations {c:?}, reference {:?}",
                        computed[si]
                    );
                }
            }
            Ok(())
        }
        RefVerdict::Failed { pass, per_solution } => {
            let Some((stage, RealErr::Failed(got))) = &real.error else {
                return Err(viol!(
                    "graph:missed-failure",
                    "the reference semantics reject the set in pass {pass} ({per_solution:?}) but the checker returned {:?} / {:?}",
                    real.gas,
                    real.error
                ));
            };
            if *stage != 0 {
                ensure!(*stage == *pass, "graph:failure-pass", "checker fails in pass {stage}, reference in pass {pass}");
            }
            let a: BTreeSet<usize> = per_solution.keys().copied().collect();
            let b: BTreeSet<usize> = got.keys().copied().collect();
            ensure!(a == b, "graph:failing-solutions", "failing solutions {b:?}, reference {a:?} (pass {pass})");
            for (si, exp) in per_solution {
                cmp_sol_fail(case, *si, exp, &got[si])?;
            }
            Ok(())
        }
        RefVerdict::Mutations { pass, blamed } => {
            if case.mode == 1 {
                // check_set_predicates does not decode outputs: it must have succeeded up to this pass
                if let Some((stage, e)) = &real.error {
                    ensure!(*stage > *pass, "graph:spurious-failure", "checker fails in pass {stage} with {e:?}; reference: programs fine, outputs invalid");
                }
                let _ = trace;
                return Ok(());
            }
            let Some((_, RealErr::Failed(got))) = &real.error else {
                return Err(viol!(
                    "graph:missed-mutation-error",
                    "data outputs of solutions {blamed:?} are invalid or collide (pass {pass}) but the checker returned gas {:?} / {:?}",
                    real.gas,
                    real.error
                ));
            };
            ensure!(
                got.len() == 1 && got.iter().all(|(si, f)| blamed.contains(si) && matches!(f, RealSolFail::Mutations(_))),
                "graph:mutation-error",
                "expected a mutation error for one of {blamed:?}, checker reports {got:?}"
            );
            Ok(())
        }
    }
}

/// History invariants over the recorded trace reads (C01 "exactly once, after all parents"; C03 pass order).
pub fn check_history(
    case: &GraphCase,
    run: &crate::model::graph::RefRun,
    verdict: &RefVerdict,
    reqs: &[Req],
) -> Result<(), Violation> {
    // tag -> solution index
    let mut by_tag: BTreeMap<i64, usize> = BTreeMap::new();
    for (si, s) in case.solutions.iter().enumerate() {
        if let Some(t) = s.data.first().and_then(|d| d.first()) {
            by_tag.insert(*t, si);
        }
    }
    if by_tag.len() != case.solutions.len() {
        // a solution is listed twice (same tag): executions cannot be attributed
        return Ok(());
    }
    // A program used at two nodes of a predicate announces the same node index from both: its executions cannot be
    // attributed, so those nodes count as untraced.
    let shared = |pred: usize, node: usize| -> bool {
        let nodes = &case.predicates[pred].nodes;
        nodes.get(node).map(|nd| nodes.iter().filter(|o| o.prog == nd.prog).count() > 1).unwrap_or(true)
    };
    let mut seen: BTreeMap<(usize, u16), Vec<u64>> = BTreeMap::new();
    for r in reqs {
        if r.key.len() == 3 && r.key[0] == TRACE {
            let Some(si) = by_tag.get(&r.key[2]) else { continue };
            if r.key[1] < 0 || shared(case.solutions[*si].pred, r.key[1] as usize) {
                continue;
            }
            seen.entry((*si, r.key[1] as u16)).or_default().push(r.seq);
        }
    }
    for ((si, node), seqs) in &seen {
        ensure!(
            seqs.len() == 1,
            "graph:executed-twice",
            "solution {si} node {node} was executed {} times",
            seqs.len()
        );
    }
    let ok = matches!(verdict, RefVerdict::Ok { .. });
    for (si, s) in case.solutions.iter().enumerate() {
        let Ok(a) = &run.analyses[s.pred] else {
            ensure!(
                !seen.keys().any(|(x, _)| *x == si),
                "graph:partially-evaluated",
                "solution {si} has a malformed graph but some of its programs were executed"
            );
            continue;
        };
        if a.topo.is_none() {
            ensure!(
                !seen.keys().any(|(x, _)| *x == si),
                "graph:partially-evaluated",
                "solution {si} has a cyclic graph but some of its programs were executed"
            );
            continue;
        }
        let deferred = &run.deferred[s.pred];
        let traced = |n: usize| -> bool {
            case.predicates[s.pred]
                .nodes
                .get(n)
                .map(|nd| case.programs[nd.prog].first() == Some(&crate::model::ops::MOp::PUSH(TRACE)))
                .unwrap_or(false)
                && !shared(s.pred, n)
        };
        for node in 0..a.parents.len() {
            if !traced(node) {
                continue; // programs without the trace read are not observable
            }
            let me = seen.get(&(si, node as u16)).map(|v| v[0]);
            if ok {
                ensure!(me.is_some(), "graph:not-executed", "solution {si} node {node} was never executed although the check succeeded");
            }
            if let Some(t) = me {
                for p in &a.parents[node] {
                    if !traced(*p as usize) {
                        continue;
                    }
                    match seen.get(&(si, *p)).map(|v| v[0]) {
                        Some(tp) => ensure!(
                            tp < t,
                            "graph:before-parent",
                            "solution {si}: node {node} ran before its parent {p}"
                        ),
                        // On a failing check the statement does not say what else runs after a failure
                        // (with collect_all_failures the checker keeps going past failed parents).
                        None if !ok => {}
                        None => {
                            return Err(viol!(
                                "graph:without-parent",
                                "solution {si}: node {node} ran although its parent {p} never ran"
                            ))
                        }
                    }
                }
            }
        }
        // pass order: every non-deferred node of every solution before any deferred node of any solution
        let _ = deferred;
    }
    let mut last_first_pass: Option<(u64, usize, u16)> = None;
    let mut first_second_pass: Option<(u64, usize, u16)> = None;
    for ((si, node), seqs) in &seen {
        let s = &case.solutions[*si];
        let d = run.deferred[s.pred].get(*node as usize).copied().unwrap_or(false);
        let t = seqs[0];
        if d {
            if first_second_pass.map(|x| t < x.0).unwrap_or(true) {
                first_second_pass = Some((t, *si, *node));
            }
        } else if last_first_pass.map(|x| t > x.0).unwrap_or(true) {
            last_first_pass = Some((t, *si, *node));
        }
    }
    if let (Some(a), Some(b)) = (last_first_pass, first_second_pass) {
        ensure!(
            a.0 < b.0,
            "graph:pass-order",
            "deferred node {} of solution {} ran before first-pass node {} of solution {}",
            b.2,
            b.1,
            a.2,
            a.1
        );
    }
    Ok(())
}

pub fn leaf_marker() -> u16 {
    LEAF
}
