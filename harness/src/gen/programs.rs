// placeholder
