//! Program generators (DESIGN §4.2): op soup, self-contained snippets, structured control flow.
//!
//! Snippets are self-contained: they push their own operands and are valid whenever the stack has
//! room and the first `MEM_BASE` memory words exist (every structured program starts by allocating
//! them). That makes them freely composable under jumps, repeats and compute without having to
//! simulate the machine while generating.

use super::{boundary_word, small_word, word};
use crate::model::ops::MOp;
use crate::model::ops::MOp::*;
use proptest::prelude::*;

/// Memory words reserved at the start of every structured program. Cells 0..8 are loop counters.
pub const MEM_BASE: i64 = 48;
const COUNTER_CELLS: i64 = 8;

pub fn soup(max_len: usize) -> impl Strategy<Value = Vec<MOp>> {
    proptest::collection::vec(super::mop_pushy(), 0..=max_len)
}

fn p(w: i64) -> MOp {
    PUSH(w)
}

/// A snippet with net stack effect +1 (pushes one result word).
pub fn snippet_plus1() -> BoxedStrategy<Vec<MOp>> {
    snippet_plus1_in(false)
}

/// `child = true`: only snippets that do not address pre-allocated own memory (a compute child starts
/// with an empty memory).
pub fn snippet_plus1_in(child: bool) -> BoxedStrategy<Vec<MOp>> {
    // arms that need pre-allocated memory degrade to a plain tag inside compute children
    let m = move |v: Vec<MOp>| if child { vec![p(v.len() as i64)] } else { v };
    let safe = || prop_oneof![3 => -50i64..50, 1 => boundary_word(), 1 => word()];
    let addr = || COUNTER_CELLS..MEM_BASE;
    prop_oneof![
        // tag
        3 => word().prop_map(|w| vec![p(w)]),
        // binary ALU / Pred
        6 => (safe(), safe(), 0usize..19).prop_map(|(a, b, k)| {
            let op = [ADD, SUB, MUL, DIV, MOD, SHL, SHR, SHRI, EQ, GT, LT, GTE, LTE, AND, OR, BAND, BOR, EQ, LT][k];
            let (a, b) = match op {
                DIV | MOD if b == 0 => (a, 3),
                SHL | SHR | SHRI => (a, b.rem_euclid(64)),
                ADD | SUB | MUL => (a % (1 << 31), b % (1 << 31)),
                _ => (a, b),
            };
            let (a, b) = if matches!(op, DIV | MOD) && a == i64::MIN && b == -1 { (a, 1) } else { (a, b) };
            vec![p(a), p(b), op]
        }),
        1 => safe().prop_map(|a| vec![p(a), NOT]),
        // dup / swap / select
        2 => (safe(), safe()).prop_map(|(a, b)| vec![p(a), p(b), SWAP, POP]),
        2 => (safe(), safe(), 0i64..2).prop_map(|(a, b, c)| vec![p(a), p(b), p(c), SEL]),
        2 => (safe(), safe(), safe(), 0i64..3).prop_map(|(a, b, c, i)| vec![p(a), p(b), p(c), p(i), DUPF, SWAP, POP, SWAP, POP, SWAP, POP]),
        2 => (safe(), safe(), safe(), 0i64..3).prop_map(|(a, b, c, i)| vec![p(a), p(b), p(c), p(i), SWAPI, POP, POP]),
        // select range / eq range
        2 => (proptest::collection::vec(safe(), 1..4), 0i64..2, any::<bool>()).prop_map(|(xs, c, same)| {
            let n = xs.len() as i64;
            let mut v: Vec<MOp> = xs.iter().map(|w| p(*w)).collect();
            v.extend(xs.iter().map(|w| p(if same { *w } else { w.wrapping_add(1) })));
            v.extend([p(n), p(c), SLTR, p(n - 1), DROP]);
            v
        }),
        2 => (proptest::collection::vec(safe(), 0..4), any::<bool>(), any::<u32>()).prop_map(|(xs, same, pos)| {
            let n = xs.len() as i64;
            let mut v: Vec<MOp> = xs.iter().map(|w| p(*w)).collect();
            let mut ys = xs.clone();
            if !same && !ys.is_empty() {
                let i = super::pick_ix(pos, ys.len());
                ys[i] = ys[i].wrapping_add(1);
            }
            v.extend(ys.iter().map(|w| p(*w)));
            v.extend([p(n), EQRA]);
            v
        }),
        // eq set
        1 => (proptest::collection::vec(proptest::collection::vec(-2i64..3, 0..3), 0..3), any::<bool>()).prop_map(|(elems, rev)| {
            let enc = |es: &Vec<Vec<i64>>| -> Vec<MOp> {
                let mut v = Vec::new();
                let mut total = 0;
                for e in es {
                    v.extend(e.iter().map(|w| p(*w)));
                    v.push(p(e.len() as i64));
                    total += e.len() as i64 + 1;
                }
                v.push(p(total));
                v
            };
            let mut other = elems.clone();
            if rev { other.reverse(); }
            let mut v = enc(&elems);
            v.extend(enc(&other));
            v.push(EQST);
            v
        }),
        // reserve / load / store on the stack frame
        2 => (0i64..4, safe()).prop_map(|(n, val)| {
            if n == 0 {
                vec![p(0), RES]
            } else {
                // [z*n, ix] -> store val at ix -> load it back -> remove the n frame words below it
                let mut out = vec![p(n), RES, DUP, p(val), SWAP, STOS, LODS];
                for _ in 0..n {
                    out.extend([SWAP, POP]);
                }
                out
            }
        }),
        // memory
        3 => (addr(), safe()).prop_map(|(a, v)| vec![p(v), p(a), STO, p(a), LOD]).prop_map(m),
        2 => (addr(), proptest::collection::vec(safe(), 1..4)).prop_map(move |(a, xs)| {
            if child { return vec![p(xs.len() as i64)]; }
            let a = a.min(MEM_BASE - xs.len() as i64);
            let n = xs.len() as i64;
            let mut v: Vec<MOp> = xs.iter().map(|w| p(*w)).collect();
            v.extend([p(n), p(a), STOR, p(a), p(n), LODR, p(n - 1), DROP]);
            v
        }),
        1 => (0i64..3).prop_map(|n| vec![p(n), ALOC]),
        1 => Just(vec![p(0), ALOC, DUP, FREE]),
        // access
        1 => Just(vec![DSLT]),
        1 => Just(vec![THIS, p(3), DROP]),
        1 => Just(vec![THISC, p(3), DROP]),
        1 => (0i64..3).prop_map(|s| vec![p(s), DLEN]),
        1 => (0i64..2, 0i64..2).prop_map(|(s, v)| vec![p(s), p(v), p(1), DATA]),
        // sha256 of a few bytes
        1 => (proptest::collection::vec(word(), 0..3), 0i64..8).prop_map(|(ws, cut)| {
            let n = (ws.len() as i64 * 8 - cut).max(0);
            let need = (n + 7) / 8;
            let mut v: Vec<MOp> = ws.iter().take(need as usize).map(|w| p(*w)).collect();
            v.extend([p(n), SHA2, p(3), DROP]);
            v
        }),
        // state reads into the reserved region (values are small in the generated states)
        2 => (0usize..4, proptest::collection::vec(-2i64..3, 0..3), 0i64..3).prop_map(move |(k, key, count)| {
            if child { return vec![p(count)]; }
            let op = [KRNG, PKRNG, KREX, PKREX][k];
            let mut v = Vec::new();
            if matches!(op, KREX | PKREX) {
                v.extend([p(1), p(1), p(1), p(1)]);
            }
            v.extend(key.iter().map(|w| p(*w)));
            v.extend([p(key.len() as i64), p(count), p(COUNTER_CELLS), op, p(COUNTER_CELLS), LOD]);
            v
        }),
    ]
    .boxed()
}

/// Snippet producing a 0/1 condition.
pub fn cond_snippet() -> BoxedStrategy<Vec<MOp>> {
    prop_oneof![
        2 => (0i64..2).prop_map(|c| vec![p(c)]),
        2 => (-3i64..4, -3i64..4).prop_map(|(a, b)| vec![p(a), p(b), LT]),
        1 => (-3i64..4, -3i64..4).prop_map(|(a, b)| vec![p(a), p(b), EQ]),
    ]
    .boxed()
}

#[derive(Clone, Copy, Debug)]
pub struct StructCfg {
    pub compute: bool,
    pub state_reads: bool,
    pub max_loop: i64,
    pub depth: u32,
    pub halts: bool,
    pub tags_only: bool,
    pub child: bool,
}

impl Default for StructCfg {
    fn default() -> Self {
        StructCfg {
            compute: true,
            state_reads: true,
            max_loop: 5,
            depth: 3,
            halts: true,
            tags_only: false,
            child: false,
        }
    }
}

fn leaf_block(cfg: StructCfg) -> BoxedStrategy<Vec<MOp>> {
    let snip = if cfg.tags_only {
        word().prop_map(|w| vec![p(w)]).boxed()
    } else {
        snippet_plus1_in(cfg.child)
    };
    (proptest::collection::vec((snip, any::<bool>()), 1..4))
        .prop_map(|parts| {
            let mut v = Vec::new();
            for (s, keep) in parts {
                v.extend(s);
                if !keep {
                    v.push(POP);
                }
            }
            v
        })
        .boxed()
}

/// Structured block: sequences, ifs, counted backward jumps, repeats (both directions, counts incl. <= 0).
/// `level` = current loop nesting (selects the counter cell).
fn block(cfg: StructCfg, in_compute: bool) -> BoxedStrategy<Vec<MOp>> {
    let leaf = leaf_block(cfg);
    leaf.prop_recursive(cfg.depth, 48, 4, move |inner| {
        let max_loop = cfg.max_loop;
        let mut alts: Vec<(u32, BoxedStrategy<Vec<MOp>>)> = vec![
            // sequence
            (3, proptest::collection::vec(inner.clone(), 2..4).prop_map(|bs| bs.concat()).boxed()),
            // if: skip the block when cond = 1
            (
                3,
                (cond_snippet(), inner.clone())
                    .prop_map(|(c, b)| {
                        let mut v = vec![p(b.len() as i64 + 1)];
                        v.extend(c);
                        v.push(JMPIF);
                        v.extend(b);
                        v
                    })
                    .boxed(),
            ),
            // counted backward jump, counter in a memory cell chosen by a generated index
            (
                2,
                (1..=max_loop, 0..COUNTER_CELLS, inner.clone())
                    .prop_map(|(k, cell, b)| {
                        let mut v = vec![p(k), p(cell), STO];
                        let start = v.len();
                        v.extend(b);
                        v.extend([p(cell), LOD, p(1), SUB, DUP, p(cell), STO, p(0), GT]);
                        // [.., cond] -> [.., dist, cond]
                        let jmp_at = v.len() + 2;
                        let dist = start as i64 - jmp_at as i64;
                        v.extend([p(dist), SWAP, JMPIF]);
                        v
                    })
                    .boxed(),
            ),
            // repeat
            (
                3,
                (prop_oneof![3 => 1..=max_loop, 1 => -2i64..1, 1 => Just(i64::MIN)], 0i64..2, any::<bool>(), inner.clone())
                    .prop_map(|(n, up, use_counter, b)| {
                        let mut v = vec![p(n), p(up), REP];
                        if use_counter {
                            v.push(REPC);
                        }
                        v.extend(b);
                        v.push(REPE);
                        v
                    })
                    .boxed(),
            ),
        ];
        if cfg.halts {
            alts.push((
                1,
                (cond_snippet(), inner.clone())
                    .prop_map(|(c, b)| {
                        let mut v = b;
                        v.extend(c);
                        v.push(HLTIF);
                        v
                    })
                    .boxed(),
            ));
        }
        if cfg.compute && !in_compute {
            alts.push((2, compute_block(cfg).boxed()));
        }
        proptest::strategy::Union::new_weighted(alts)
    })
    .boxed()
}

/// `PUSH n; COM; <child body>; COME` with index dependent child bodies.
pub fn compute_block(cfg: StructCfg) -> impl Strategy<Value = Vec<MOp>> {
    let child_cfg = StructCfg {
        compute: false,
        depth: cfg.depth.min(2),
        child: true,
        ..cfg
    };
    let piece = prop_oneof![
        // allocate (i mod k) words and store the index in them
        6 => (2i64..5).prop_map(|k| vec![DUP, p(k), MOD, ALOC, POP]),
        // store a function of i in fresh memory: [i] -> [i, a] -> [i, a, i|w] -> [i, i|w, a] -> STO -> [i]
        3 => (word()).prop_map(|w| vec![p(1), ALOC, p(1), DUPF, p(w % 1000), BOR, SWAP, STO]),
        // read an inherited stack word into own memory, then overwrite it: a later child must still see the original
        3 => (0i64..3, word()).prop_map(|(ix, w)| vec![p(ix), LODS, p(1), ALOC, STO, p(w % 1000), p(ix), STOS]),
        // consume the index and an inherited word, then restore the depth with other values
        1 => (word()).prop_map(|w| vec![POP, POP, p(w % 100), p(5)]),
        // read parent memory (the value read is kept in the child's own memory, so a stale or foreign snapshot shows)
        2 => (0..MEM_BASE).prop_map(|a| vec![p(a), LODP, p(1), ALOC, STO]),
        1 => (0..MEM_BASE).prop_map(|a| vec![p(a), LODP, POP]),
        2 => (0..MEM_BASE - 4).prop_map(|a| vec![p(a), p(2), LODPR, BOR, p(1), ALOC, STO]),
        1 => (0..MEM_BASE - 4, 0i64..4).prop_map(|(a, n)| vec![p(a), p(n), LODPR, p(n), DROP]),
        // some indices leave their own repeat loop early (halt / compute end from inside the body): whatever repeat
        // state such a child leaves behind must not reach its siblings
        2 => (2i64..4, 0i64..2, 2i64..5, 0i64..2, any::<bool>()).prop_map(|(k, r, n, up, halt)| {
            let mut v = vec![p(n), p(up), REP, DUP, p(k), MOD, p(r), EQ];
            if halt {
                v.push(HLTIF);
            } else {
                v.extend([NOT, p(2), SWAP, JMPIF, COME]);
            }
            v.push(REPE);
            v
        }),
        // index dependent skip of a block
        5 => (2i64..4, 0i64..2, leaf_block(child_cfg)).prop_map(|(k, r, b)| {
            // if i mod k == r skip b
            let mut v = vec![DUP, p(k), MOD, p(r), EQ]; // [.., i, cond]
            v.extend([p(b.len() as i64 + 1), SWAP, JMPIF]);
            v.extend(b);
            v
        }),
        // halting child for some indices
        2 => (2i64..4, 0i64..2).prop_map(|(k, r)| vec![DUP, p(k), MOD, p(r), EQ, HLTIF]),
        // early compute end for some indices
        2 => (2i64..4, 0i64..2).prop_map(|(k, r)| vec![DUP, p(k), MOD, p(r), EQ, NOT, p(2), SWAP, JMPIF, COME]),
        // generic block
        3 => block(child_cfg, true),
        // failing child (rare)
        1 => (2i64..6).prop_map(|r| vec![DUP, p(r), EQ, PNCIF]),
        // nested compute (always an error when executed)
        1 => Just(vec![p(1), COM, COME]),
    ];
    (
        prop_oneof![1 => Just(1i64), 6 => 2i64..7, 2 => 7i64..20, 1 => -1i64..1],
        proptest::collection::vec(piece, 1..5),
        prop_oneof![6 => Just(0u8), 1 => Just(1u8), 1 => Just(2u8)],
    )
        .prop_map(|(n, pieces, ending)| {
            let mut v = vec![p(n), COM];
            for x in pieces {
                v.extend(x);
            }
            match ending {
                0 => v.push(COME),
                1 => v.push(HLT),
                _ => {} // falls through into whatever follows / off the end
            }
            v
        })
}

/// A full structured program: reserve memory, then blocks; optionally ends with a trailing HLT.
pub fn structured(cfg: StructCfg) -> impl Strategy<Value = Vec<MOp>> {
    (block(cfg, false), any::<bool>()).prop_map(|(b, halt)| {
        let mut v = vec![p(MEM_BASE), ALOC, POP];
        v.extend(b);
        if halt {
            v.push(HLT);
        }
        v
    })
}

/// Small predicate-data / solution generator matching what the snippets access.
pub fn small_data() -> impl Strategy<Value = Vec<Vec<i64>>> {
    proptest::collection::vec(proptest::collection::vec(small_word(), 0..4), 0..4)
}
