//! Graph / solution-set case generator (DESIGN §4.4, §4.5).
//!
//! A case is built deterministically from a choice stream (`Vec<u32>`), so proptest shrinks the
//! choices (shorter streams and smaller numbers give smaller, more regular cases).

use crate::chk::TRACE;
use crate::doubles::{Addr, MapSpec};
use crate::model::graph::{GraphCase, NodeSpec, PredSpec, SolSpec, LEAF};
use crate::model::ops::MOp::{self, *};
use proptest::prelude::*;

pub struct Chooser {
    data: Vec<u32>,
    i: usize,
}

impl Chooser {
    pub fn new(data: Vec<u32>) -> Self {
        Chooser { data, i: 0 }
    }
    /// Uniform-ish in 0..n, monotone in the underlying choice (0 when the stream is exhausted).
    pub fn pick(&mut self, n: usize) -> usize {
        let c = self.data.get(self.i).copied().unwrap_or(0);
        self.i += 1;
        if n == 0 {
            0
        } else {
            ((c as u64 * n as u64) >> 32) as usize
        }
    }
    /// True with probability num/den; false when the stream is exhausted (so shrinking removes events).
    pub fn chance(&mut self, num: usize, den: usize) -> bool {
        self.pick(den) + num >= den
    }
    pub fn weighted(&mut self, weights: &[usize]) -> usize {
        let total: usize = weights.iter().sum();
        let mut x = self.pick(total);
        for (i, w) in weights.iter().enumerate() {
            if x < *w {
                return i;
            }
            x -= w;
        }
        weights.len() - 1
    }
}

#[derive(Clone, Copy, Debug)]
pub struct GraphCfg {
    pub max_nodes: usize,
    pub max_solutions: usize,
    /// Weight of post-state-reading node kinds (0 = none).
    pub post_weight: usize,
    /// Per-predicate chance (in 100) of corrupting the encoding (cycle, malformed slice, self loop).
    pub corrupt_pct: usize,
    /// Chance (in 100) of a dangling edge target.
    pub dangling_pct: usize,
    /// Failing / bad-leaf programs allowed.
    pub failing: bool,
    /// Only the two-pass entry point.
    pub two_pass_only: bool,
    /// Declared mutations of different solutions may address the same contract and key (set validation must reject).
    pub slot_collision_pct: usize,
    /// Chance (in 100) that one solution is listed twice verbatim (without mutations).
    pub duplicate_solution_pct: usize,
    /// Hostile programs: arbitrary data-output memories, reads with enormous counts.
    pub hostile: bool,
    /// Calm programs: no parity leaves and no oversize outputs, inner nodes mostly fold (keeps big graphs acceptable).
    pub calm: bool,
    /// Chance (in 100) that one solution declares so many extra mutations (keys outside the small universe) that the
    /// set's declared total is 998..1000: whatever is computed on top crosses the 1000 mark.
    pub bulk_pct: usize,
}

impl Default for GraphCfg {
    fn default() -> Self {
        GraphCfg {
            max_nodes: 10,
            max_solutions: 4,
            post_weight: 2,
            corrupt_pct: 8,
            dangling_pct: 2,
            failing: true,
            two_pass_only: false,
            slot_collision_pct: 0,
            duplicate_solution_pct: 0,
            hostile: false,
            calm: false,
            bulk_pct: 2,
        }
    }
}

pub const C_A: Addr = [0xA1; 32];
pub const C_B: Addr = [0xB2; 32];
pub const C_X: Addr = [0xC3; 32];

/// The 16-op stack- and memory-neutral trace prologue: reads the reserved pre-state key [TRACE, node, solution tag].
pub fn trace_prologue(node: u16) -> Vec<MOp> {
    vec![
        PUSH(TRACE),
        PUSH(node as i64),
        PUSH(0),
        PUSH(0),
        PUSH(1),
        DATA,
        PUSH(3),
        PUSH(1),
        PUSH(2),
        ALOC,
        KRNG,
        PUSH(0),
        ALOC,
        PUSH(2),
        SUB,
        FREE,
    ]
}

const MASK40: i64 = (1 << 40) - 1;

/// Collapse the whole stack (plus a sentinel) into one order-sensitive word: [xs..] -> [h].
pub fn fold_stack(sentinel: i64) -> Vec<MOp> {
    vec![
        PUSH(sentinel),
        PUSH(0),
        RES, // [xs.., s, L]  (L >= 1)
        PUSH(0),
        SWAP, // [xs.., s, acc=0, L]
        PUSH(1),
        REP, // body: [.., x, acc] -> [.., acc']
        PUSH(3),
        SHL,
        PUSH(MASK40),
        BAND,
        SWAP,
        PUSH(0xFFFF),
        BAND,
        ADD,
        REPE,
    ]
}

/// Fold the memory into the stack hash as well: pushes memory length and (up to 6) first words.
fn memory_probe() -> Vec<MOp> {
    // [..] -> [.., len]  (ALOC 0 returns the current length)
    vec![PUSH(0), ALOC]
}

fn key_universe_first() -> [i64; 5] {
    [0, 1, 2, 3, i64::MAX]
}

pub fn sol_tag(i: usize) -> i64 {
    100 + i as i64
}

/// A key from the small universe: [a, b] with b around the solution tags or at the carry boundary, a single word, or
/// (rarely) the empty key.
fn pick_key(ch: &mut Chooser) -> Vec<i64> {
    let a = key_universe_first()[ch.weighted(&[4, 3, 1, 1, 1])];
    match ch.weighted(&[12, 2, 2, 2, 1]) {
        0 => vec![a, 100 + ch.pick(6) as i64],
        1 => vec![a, i64::MAX],
        2 => vec![a, i64::MIN],
        3 => vec![ch.pick(4) as i64],
        // the empty key: it has no successor, a range starting there holds one key
        _ => vec![],
    }
}

fn pick_value(ch: &mut Chooser, allow_empty: bool) -> Vec<i64> {
    let n = if allow_empty { ch.pick(4) } else { 1 + ch.pick(3) };
    (0..n).map(|_| 10 + ch.pick(90) as i64).collect()
}

/// One key-range read into a fresh region at address 0, loaded onto the stack: [..] -> [.., region words].
fn emit_read(post: bool, ext: Option<Addr>, key: &[i64], count: i64, size: i64) -> Vec<MOp> {
    let mut v = vec![PUSH(0), FREE];
    if let Some(c) = ext {
        v.extend(crate::model::vm::bytes_to_words(&c).into_iter().map(PUSH));
    }
    v.extend(key.iter().map(|w| PUSH(*w)));
    v.extend([PUSH(key.len() as i64), PUSH(count), PUSH(size), ALOC]);
    v.push(match (post, ext.is_some()) {
        (false, false) => KRNG,
        (false, true) => KREX,
        (true, false) => PKRNG,
        (true, true) => PKREX,
    });
    v.extend([PUSH(0), PUSH(size), LODR]);
    v
}

/// Read `count` keys starting at `key` (pre or post, own or external contract) and load what was read onto the
/// stack. Post readers sometimes start with a jumped-over Halt and sometimes read the same range once more through
/// the pre-state op of the same flavour (pre-state reads must never observe mutations, also in deferred programs).
fn read_block(ch: &mut Chooser, post: bool) -> Vec<MOp> {
    let ext = if ch.chance(1, 3) {
        Some(if ch.chance(1, 2) { C_X } else if ch.chance(1, 2) { C_A } else { C_B })
    } else {
        None
    };
    let mut count = [0i64, 1, 2, 3, 3, 4, 4][ch.pick(7)];
    let mut key = pick_key(ch);
    if ch.chance(1, 2) {
        // aim at the keys that emit leaves write: [0|1, solution tag]
        key = vec![ch.pick(2) as i64, 99 + ch.pick(3) as i64];
        count = 3 + ch.pick(2) as i64;
    }
    // start a little before interesting keys so that ranges straddle mutated and unmutated keys
    if key.len() == 2 && key[1] >= 100 && key[1] < 110 && ch.chance(1, 2) {
        key[1] -= 1;
    }
    let size = 5 * count.max(1);
    let mut v = Vec::new();
    if ch.chance(1, 4) {
        // guard: a Halt that is jumped over (everything after it is still reachable)
        v.extend([PUSH(2), PUSH(1), JMPIF, HLT]);
    }
    v.extend(emit_read(post, ext, &key, count, size));
    if post && ch.chance(1, 3) {
        v.extend(emit_read(false, ext, &key, count, size));
    }
    v
}

/// Leaf ending: drop everything and emit one mutation `[a, soltag] -> [hash]` as a data output.
fn emit_tail(a: i64, bad: usize) -> Vec<MOp> {
    // stack: [h]
    let mut v = vec![PUSH(0), FREE];
    match bad {
        // canonical: [1, 2, a, tag, 1, h]
        0 => {
            v.extend([PUSH(6), ALOC, POP]);
            v.extend([PUSH(4 + 1), STO]); // h -> mem[5]
            for (i, w) in [1i64, 2, a].iter().enumerate() {
                v.extend([PUSH(*w), PUSH(i as i64), STO]);
            }
            v.extend([PUSH(0), PUSH(0), PUSH(1), DATA, PUSH(3), STO]); // solution tag -> mem[3]
            v.extend([PUSH(1), PUSH(4), STO]);
        }
        // canonical list of two mutations: [2, 2,a,tag,1,h, 2,a2,tag,1,7] where a2 == a (same key twice) or a+1
        4 | 5 => {
            let a2 = if bad == 4 { a } else { a + 1 };
            v.extend([PUSH(11), ALOC, POP]);
            v.extend([PUSH(5), STO]); // h -> mem[5]
            for (i, w) in [(0, 2i64), (1, 2), (2, a), (4, 1), (6, 2), (7, a2), (9, 1), (10, 7)] {
                v.extend([PUSH(w), PUSH(i), STO]);
            }
            for at in [3i64, 8] {
                v.extend([PUSH(0), PUSH(0), PUSH(1), DATA, PUSH(at), STO]);
            }
        }
        // unambiguously invalid: negative key length
        1 => {
            v.extend([POP, PUSH(3), ALOC, POP, PUSH(1), PUSH(0), STO, PUSH(-1), PUSH(1), STO]);
        }
        // truncated: [1, 1, 5]
        2 => {
            v.extend([POP, PUSH(3), ALOC, POP, PUSH(1), PUSH(0), STO, PUSH(1), PUSH(1), STO, PUSH(5), PUSH(2), STO]);
        }
        // empty list: [0]
        _ => {
            v.extend([POP, PUSH(1), ALOC, POP]);
        }
    }
    v.push(PUSH(2));
    v
}

struct PredBuild {
    spec: PredSpec,
    /// node index -> is a post reader / emits
    has_post: bool,
}

fn build_predicate(ch: &mut Chooser, cfg: &GraphCfg, programs: &mut Vec<Vec<MOp>>, emit_slots: &mut usize) -> PredBuild {
    let n = 2 + ch.pick(cfg.max_nodes.saturating_sub(1));
    // parents in topological id space
    let mut parents: Vec<Vec<usize>> = vec![vec![]];
    for t in 1..n {
        let np = [0usize, 1, 1, 1, 1, 2, 2, 2, 3][ch.pick(9)];
        let mut ps = Vec::new();
        for _ in 0..np {
            // bias to recent nodes (chains) but allow any earlier node (fan-in, diamonds); duplicates = multi-edges
            let p = if ch.chance(1, 2) { t - 1 - ch.pick(t.min(2)) } else { ch.pick(t) };
            ps.push(p);
        }
        parents.push(ps);
    }
    // numbering: topo id -> node index
    let mut perm: Vec<usize> = (0..n).collect();
    match ch.weighted(&[3, 2, 7]) {
        0 => {}
        1 => perm.reverse(),
        _ => {
            for i in (1..n).rev() {
                let j = ch.pick(i + 1);
                perm.swap(i, j);
            }
        }
    }
    let mut children: Vec<Vec<u16>> = vec![vec![]; n]; // by node index
    for (t, ps) in parents.iter().enumerate() {
        for p in ps {
            children[perm[*p]].push(perm[t] as u16);
        }
    }
    // child order inside a slice is irrelevant to the semantics: shuffle lightly
    for c in children.iter_mut() {
        if c.len() > 1 && ch.chance(1, 2) {
            c.reverse();
        }
    }
    let mut has_post = false;
    // programs
    let mut node_prog = vec![0usize; n];
    for ix in 0..n {
        let leaf = children[ix].is_empty();
        let tag = 1000 + programs.len() as i64;
        let mut p = trace_prologue(ix as u16);
        if leaf {
            let kinds = [2, if cfg.calm { 0 } else { 4 }, 4, if cfg.failing { 1 } else { 0 }, if cfg.failing { 1 } else { 0 }, if cfg.failing { 1 } else { 0 }, cfg.post_weight, 1, if cfg.hostile { 6 } else { 0 }];
            match ch.weighted(&kinds) {
                // hostile data output: arbitrary words as memory
                8 => {
                    let words: Vec<i64> = match ch.pick(8) {
                        0 => vec![1, 1, 5],
                        1 => vec![i64::MAX],
                        2 => vec![1 << 40],
                        3 => vec![2, 0, 0],
                        4 => vec![1, i64::MAX, 0],
                        5 => vec![1, 0, i64::MAX],
                        _ => (0..ch.pick(7)).map(|_| [-1i64, 0, 1, 2, 3, 5, i64::MAX, i64::MIN, 1 << 33][ch.pick(9)]).collect(),
                    };
                    p.extend([PUSH(0), RES, DROP, PUSH(0), FREE, PUSH(words.len() as i64), ALOC, POP]);
                    for (i, w) in words.iter().enumerate() {
                        p.extend([PUSH(*w), PUSH(i as i64), STO]);
                    }
                    p.push(PUSH(2));
                }
                // accept: drop everything, push 1
                0 => p.extend([PUSH(0), RES, DROP, PUSH(1)]),
                // parity: satisfied iff (hash & 7) != 0
                1 => {
                    p.extend(memory_probe());
                    p.extend(fold_stack(tag));
                    p.extend([PUSH(7), BAND, PUSH(0), GT]);
                }
                // emit the hash as a computed mutation
                2 => {
                    p.extend(memory_probe());
                    p.extend(fold_stack(tag));
                    let a = if cfg.calm { 1000 + *emit_slots as i64 } else { key_universe_first()[*emit_slots % 2] };
                    *emit_slots += 1;
                    // mostly one mutation; sometimes two (distinct keys, or the same key twice)
                    let shape = if cfg.calm { 0 } else { [0usize, 0, 0, 0, 0, 0, 5, 4][ch.pick(8)] };
                    p.extend(emit_tail(a, shape));
                }
                // bad leaf: [], [1,1], [3]
                3 => match ch.pick(3) {
                    0 => p.extend([PUSH(0), RES, DROP]),
                    1 => p.extend([PUSH(0), RES, DROP, PUSH(1), PUSH(1)]),
                    _ => p.extend([PUSH(0), RES, DROP, PUSH(3)]),
                },
                // failing program
                4 => match ch.pick(2) {
                    0 => p.extend([PUSH(0), RES, DROP, POP]),
                    _ => p.extend([PUSH(1), PNCIF]),
                },
                // invalid data output
                5 => {
                    p.extend(fold_stack(tag));
                    let bad = 1 + ch.pick(3);
                    p.extend(emit_tail(0, bad));
                }
                // post-state read, result folded and emitted / checked
                6 => {
                    has_post = true;
                    p.extend(read_block(ch, true));
                    p.extend(fold_stack(tag));
                    if ch.chance(2, 3) {
                        let a = if cfg.calm { 1000 + *emit_slots as i64 } else { key_universe_first()[*emit_slots % 2] };
                        *emit_slots += 1;
                        p.extend(emit_tail(a, 0));
                    } else {
                        p.extend([PUSH(7), BAND, PUSH(0), GT]);
                    }
                }
                // pre-state read, folded and emitted
                _ => {
                    p.extend(read_block(ch, false));
                    p.extend(fold_stack(tag));
                    let a = if cfg.calm { 1000 + *emit_slots as i64 } else { key_universe_first()[*emit_slots % 2] };
                    *emit_slots += 1;
                    p.extend(emit_tail(a, 0));
                }
            }
        } else {
            let kinds = [if cfg.calm { 2 } else { 5 }, if cfg.calm { 6 } else { 2 }, 1, 1, cfg.post_weight, if cfg.failing { 1 } else { 0 }, if cfg.calm { 0 } else { 1 }, if cfg.hostile { 3 } else { 0 }];
            match ch.weighted(&kinds) {
                // hostile read: enormous / boundary count, pre or post, own or external
                7 => {
                    if ch.chance(1, 2) {
                        has_post = true;
                    }
                    let post = has_post && ch.chance(2, 3);
                    let mut count = [i64::MAX, i64::MAX - 1, 1 << 40, 5121, 5120, 4096, -1, i64::MIN][ch.pick(8)];
                    // sometimes the hostile operand is the destination address instead: a few values, written next to the
                    // top of the address range
                    let wild_addr = if ch.chance(1, 4) {
                        count = 1 + ch.pick(3) as i64;
                        Some([i64::MAX, i64::MAX - 1, i64::MAX - 2, i64::MAX - 5, 1 << 62, -1, i64::MIN][ch.pick(7)])
                    } else {
                        None
                    };
                    let key = pick_key(ch);
                    p.extend([PUSH(0), FREE]);
                    let ext = ch.chance(1, 3);
                    if ext {
                        p.extend(crate::model::vm::bytes_to_words(&C_A).into_iter().map(PUSH));
                    }
                    p.extend(key.iter().map(|w| PUSH(*w)));
                    p.extend([PUSH(key.len() as i64), PUSH(count), PUSH(64), ALOC]);
                    if let Some(a) = wild_addr {
                        p.extend([POP, PUSH(a)]);
                    }
                    p.push(match (post, ext) {
                        (false, false) => KRNG,
                        (false, true) => KREX,
                        (true, false) => PKRNG,
                        (true, true) => PKREX,
                    });
                }
                // tag: one stack word and one memory word
                0 => p.extend([PUSH(tag), PUSH(1), ALOC, PUSH(tag), SWAP, STO]),
                // fold
                1 => p.extend(fold_stack(tag)),
                // pass
                2 => {}
                // pre read
                3 => p.extend(read_block(ch, false)),
                // post read
                4 => {
                    has_post = true;
                    p.extend(read_block(ch, true));
                }
                // failing inner node (rare)
                5 => {
                    if ch.chance(1, 3) {
                        p.extend([PUSH(1), PNCIF]);
                    } else {
                        p.extend([PUSH(tag)]);
                    }
                }
                // big output: makes concatenations overflow occasionally
                _ => {
                    if ch.chance(1, 6) {
                        p.extend([PUSH(2040), RES, POP]);
                    } else {
                        p.extend([PUSH(tag), PUSH(tag + 1)]);
                    }
                }
            }
        }
        node_prog[ix] = programs.len();
        programs.push(p);
    }
    // program sharing: one program (same content address) used at two nodes of the predicate, preferably a post-state
    // reader (each use has to be deferred / evaluated on its own)
    if n >= 3 && !cfg.calm && ch.chance(1, 5) {
        let readers: Vec<usize> = (0..n).filter(|i| programs[node_prog[*i]].iter().any(|o| matches!(o, PKRNG | PKREX))).collect();
        let a = if !readers.is_empty() && ch.chance(3, 4) { readers[ch.pick(readers.len())] } else { ch.pick(n) };
        let same: Vec<usize> = (0..n).filter(|i| *i != a && children[*i].is_empty() == children[a].is_empty()).collect();
        if !same.is_empty() {
            let b = same[ch.pick(same.len())];
            node_prog[b] = node_prog[a];
        }
    }
    // encoding: edges in node order; leaves by empty range, or by the marker where that is faithful
    let mut edges: Vec<u16> = Vec::new();
    let mut starts: Vec<u16> = Vec::new();
    for c in &children {
        starts.push(edges.len() as u16);
        edges.extend(c);
    }
    let last_nonleaf = (0..n).rev().find(|i| !children[*i].is_empty());
    let mut nodes: Vec<NodeSpec> = Vec::new();
    for ix in 0..n {
        let mut es = starts[ix];
        if children[ix].is_empty() {
            // the marker is faithful if the previous node's slice may run to the end of the edge list
            let prev_ok = ix == 0 || nodes[ix - 1].edge_start == LEAF || last_nonleaf.map(|l| l < ix).unwrap_or(true) || last_nonleaf == Some(ix - 1);
            if prev_ok && ch.chance(2, 3) {
                es = LEAF;
            }
        }
        nodes.push(NodeSpec {
            edge_start: es,
            prog: node_prog[ix],
        });
    }
    let mut spec = PredSpec { nodes, edges };
    // corruption
    if ch.chance(cfg.corrupt_pct, 100) {
        match ch.pick(4) {
            // back edge -> cycle (append an edge from the last non-leaf to a root-ish node)
            0 => {
                if let Some(l) = last_nonleaf {
                    // only faithful if l's slice runs to the end: append to the end and it belongs to the last slice owner
                    let target = spec.edges[0];
                    let _ = l;
                    spec.edges.push(perm[0] as u16);
                    let _ = target;
                }
            }
            // self loop
            1 => {
                let owner = (0..n).rev().find(|i| spec.nodes[*i].edge_start != LEAF);
                if let Some(o) = owner {
                    spec.edges.push(o as u16);
                }
            }
            // malformed: edge_start beyond the edge list
            2 => {
                let i = ch.pick(n);
                spec.nodes[i].edge_start = spec.edges.len() as u16 + 1 + ch.pick(3) as u16;
            }
            // decreasing starts
            _ => {
                let i = ch.pick(n);
                if spec.nodes[i].edge_start != LEAF && !spec.edges.is_empty() {
                    spec.nodes[i].edge_start = spec.edges.len() as u16;
                    if i + 1 < n && spec.nodes[i + 1].edge_start != LEAF {
                        spec.nodes[i + 1].edge_start = 0;
                    }
                }
            }
        }
    }
    if ch.chance(cfg.dangling_pct, 100) && !spec.edges.is_empty() {
        let i = ch.pick(spec.edges.len());
        spec.edges[i] = n as u16 + ch.pick(3) as u16;
    }
    PredBuild { spec, has_post }
}

pub fn build_case(choices: Vec<u32>, cfg: &GraphCfg) -> GraphCase {
    let mut ch = Chooser::new(choices);
    let nsol = 1 + ch.pick(cfg.max_solutions);
    let npred = 1 + ch.pick(nsol.min(3));
    let mut programs = Vec::new();
    let mut predicates = Vec::new();
    let mut emit_slots = 0usize;
    for _ in 0..npred {
        let pb = build_predicate(&mut ch, cfg, &mut programs, &mut emit_slots);
        let _ = pb.has_post;
        predicates.push(pb.spec);
    }
    // solutions
    let mut solutions = Vec::new();
    let mut taken: std::collections::BTreeSet<(Addr, Vec<i64>)> = Default::default();
    for i in 0..nsol {
        let pred = if i < npred { i } else { ch.pick(npred) };
        let contract = if ch.chance(2, 3) { C_A } else { C_B };
        let mut data = vec![vec![sol_tag(i)]];
        for _ in 0..ch.pick(3) {
            data.push(pick_value(&mut ch, true));
        }
        let mut mutations = Vec::new();
        for _ in 0..ch.pick(4) {
            let k = pick_key(&mut ch);
            // one value per contract and key (set validation requires it), unless collisions are wanted
            if taken.insert((contract, k.clone())) || ch.chance(cfg.slot_collision_pct, 100) {
                mutations.push((k, pick_value(&mut ch, true)));
            }
        }
        solutions.push(SolSpec {
            pred,
            contract,
            data,
            mutations,
        });
    }
    if ch.chance(cfg.bulk_pct, 100) {
        let i = ch.pick(solutions.len());
        let declared: usize = solutions.iter().map(|s| s.mutations.len()).sum();
        let pad = (1000 - ch.pick(3)).saturating_sub(declared);
        for j in 0..pad {
            solutions[i].mutations.push((vec![7, j as i64], vec![1]));
        }
    }
    if ch.chance(cfg.duplicate_solution_pct, 100) {
        let i = ch.pick(solutions.len());
        solutions[i].mutations.clear();
        let dup = solutions[i].clone();
        let at = ch.pick(solutions.len() + 1);
        solutions.insert(at, dup);
    }
    // pre-state
    let mut contracts = Vec::new();
    for c in [C_A, C_B, C_X] {
        let mut kvs = Vec::new();
        for _ in 0..ch.pick(8) {
            kvs.push((pick_key(&mut ch), pick_value(&mut ch, false)));
        }
        contracts.push((c, kvs));
    }
    let collect_all = ch.chance(1, 2);
    let mode = if cfg.two_pass_only { 0 } else { [0u8, 0, 1, 2][ch.pick(4)] };
    let mut raw_programs = Vec::new();
    if cfg.hostile && ch.chance(1, 5) && !programs.is_empty() {
        let i = ch.pick(programs.len());
        let mut bytes = crate::model::asm::encode(&programs[i]);
        match ch.pick(5) {
            // truncated trailing Push
            0 => {
                bytes.push(0x01);
                bytes.extend(std::iter::repeat(0x82).take(ch.pick(8)));
            }
            // invalid opcode somewhere
            1 => {
                let at = ch.pick(bytes.len() + 1);
                bytes.insert(at, [0x00u8, 0xff, 0x0f, 0x92, 0x7c][ch.pick(5)]);
            }
            // cut in the middle
            2 => {
                let keep = ch.pick(bytes.len() + 1);
                bytes.truncate(keep);
            }
            // a post-read opcode byte that only exists inside an unparsable tail
            3 => bytes.extend([0x00, 0x82]),
            _ => bytes = (0..ch.pick(12)).map(|_| ch.pick(256) as u8).collect(),
        }
        raw_programs.push((i, bytes));
    }
    GraphCase {
        raw_programs,
        programs,
        predicates,
        solutions,
        pre_state: MapSpec {
            contracts,
            fail_contracts: vec![],
        },
        collect_all,
        mode,
    }
}

pub fn graph_case(cfg: GraphCfg) -> impl Strategy<Value = GraphCase> {
    let max = 400 + 40 * cfg.max_nodes * cfg.max_solutions.min(3);
    proptest::collection::vec(any::<u32>(), 60..max).prop_map(move |c| build_case(c, &cfg))
}

/// Wide levels: k sibling nodes (roots, or children of one root) of which several fail / are unsatisfied.
/// Targets order dependence between the parallel node tasks of one level.
pub fn build_wide_case(choices: Vec<u32>) -> GraphCase {
    let mut ch = Chooser::new(choices);
    let k = 3 + ch.pick(8);
    let with_root = ch.chance(1, 2);
    let mut programs = Vec::new();
    let mut nodes = Vec::new();
    let mut edges = Vec::new();
    let first_sibling = if with_root { 1 } else { 0 };
    if with_root {
        let mut p = trace_prologue(0);
        p.extend([PUSH(7), PUSH(8)]);
        nodes.push(NodeSpec { edge_start: 0, prog: 0 });
        programs.push(p);
        for i in 0..k {
            edges.push((first_sibling + i) as u16);
        }
    }
    for i in 0..k {
        let ix = (first_sibling + i) as u16;
        let mut p = trace_prologue(ix);
        match ch.weighted(&[3, 3, 2, 2, 1]) {
            0 => p.extend([PUSH(0), RES, DROP, PUSH(1)]),
            1 => p.extend([PUSH(1), PNCIF]),
            2 => p.extend([PUSH(0), RES, DROP, POP]),
            3 => p.extend([PUSH(0), RES, DROP, PUSH(0)]),
            _ => {
                p.extend(fold_stack(1000 + i as i64));
                p.extend([PUSH(7), BAND, PUSH(0), GT]);
            }
        }
        nodes.push(NodeSpec { edge_start: LEAF, prog: programs.len() });
        programs.push(p);
    }
    let nsol = 1 + ch.pick(3);
    let solutions = (0..nsol)
        .map(|i| SolSpec {
            pred: 0,
            contract: C_A,
            data: vec![vec![sol_tag(i)]],
            mutations: vec![],
        })
        .collect();
    GraphCase {
        programs,
        predicates: vec![PredSpec { nodes, edges }],
        solutions,
        pre_state: MapSpec::default(),
        collect_all: ch.chance(1, 3),
        mode: [0u8, 1, 2][ch.pick(3)],
        raw_programs: vec![],
    }
}

/// Joins at the concatenation limits: k roots whose output stacks / memories total limit-1, limit or limit+1
/// at a join node (which accepts whatever it gets). Targets the bounds of the parents' concatenation.
pub fn build_concat_case(choices: Vec<u32>) -> GraphCase {
    let mut ch = Chooser::new(choices);
    let k = 2 + ch.pick(3);
    let stack_total = [4095usize, 4096, 4097, 4090, 100][ch.pick(5)];
    let mem_total = [10239usize, 10240, 10241, 10000, 50][ch.pick(5)];
    // the join's own prologue needs 6 stack words and 2 memory words of head-room, which it does not have at the
    // limit; so the join is a *plain* program without the trace read
    let mut split = |total: usize, ch: &mut Chooser| -> Vec<usize> {
        let mut parts = vec![0usize; k];
        let mut left = total;
        for p in parts.iter_mut().take(k - 1) {
            let x = ch.pick(left + 1);
            *p = x;
            left -= x;
        }
        parts[k - 1] = left;
        parts
    };
    let stacks = split(stack_total, &mut ch);
    let mems = split(mem_total, &mut ch);
    let mut programs = Vec::new();
    let mut nodes = Vec::new();
    let mut edges = Vec::new();
    // numbering: join first or last
    let join_first = ch.chance(1, 2);
    let join_ix = if join_first { 0 } else { k };
    let root_ix = |i: usize| if join_first { i + 1 } else { i };
    let mut node_slots: Vec<Option<NodeSpec>> = vec![None; k + 1];
    for i in 0..k {
        let ix = root_ix(i);
        let mut p = trace_prologue(ix as u16);
        // [zeros(s)] : RES pushes the frame start, which is popped again
        p.extend([PUSH(stacks[i] as i64), RES, POP, PUSH(mems[i] as i64), ALOC, POP]);
        if stacks[i] > 0 && ch.chance(1, 2) {
            // make the contents order-sensitive
            p.extend([PUSH(7 + i as i64), PUSH(0), STOS]);
        }
        node_slots[ix] = Some(NodeSpec { edge_start: 0, prog: programs.len() });
        programs.push(p);
    }
    // join: plain leaf program: satisfied iff it can run at all
    let join_prog = match ch.pick(3) {
        0 => vec![PUSH(0), FREE, PUSH(0), RES, DROP, PUSH(1)],
        1 => vec![PUSH(0), RES, DROP, PUSH(1)],
        // emit the sizes it saw: [stack len, memory len] folded into satisfiability only (keeps it simple)
        _ => vec![PUSH(0), ALOC, POP, PUSH(0), RES, DROP, PUSH(1)],
    };
    node_slots[join_ix] = Some(NodeSpec { edge_start: LEAF, prog: programs.len() });
    programs.push(join_prog);
    // edges in node order, every root -> join
    let mut nodes_v: Vec<NodeSpec> = node_slots.into_iter().map(|n| n.unwrap()).collect();
    for (ix, n) in nodes_v.iter_mut().enumerate() {
        if ix != join_ix {
            n.edge_start = edges.len() as u16;
            edges.push(join_ix as u16);
        } else {
            // leaf by empty range unless it is the last node
            n.edge_start = if ix == k { LEAF } else { edges.len() as u16 };
        }
    }
    nodes.append(&mut nodes_v);
    GraphCase {
        programs,
        predicates: vec![PredSpec { nodes, edges }],
        solutions: vec![SolSpec {
            pred: 0,
            contract: C_A,
            data: vec![vec![sol_tag(0)]],
            mutations: vec![],
        }],
        pre_state: MapSpec::default(),
        collect_all: ch.chance(1, 2),
        mode: [0u8, 1, 2][ch.pick(3)],
        raw_programs: vec![],
    }
}

/// Mutation-decoding race: solutions of one contract whose data leaves compute the same key; the lower-indexed
/// solution first computes a long list of other mutations. The blamed solution must not depend on timing.
pub fn build_mutation_race_case(choices: Vec<u32>) -> GraphCase {
    let mut ch = Chooser::new(choices);
    let nsol = 2 + ch.pick(2);
    let clash = 7i64;
    let mut programs = Vec::new();
    let mut predicates = Vec::new();
    let mut solutions = Vec::new();
    for si in 0..nsol {
        // solution 0 (sometimes 1) has the long list
        let n: i64 = if si == 0 || (si == 1 && ch.chance(1, 3)) { 200 + ch.pick(1500) as i64 } else { ch.pick(3) as i64 };
        let clashes = si < 2 || ch.chance(1, 2);
        let total = n + i64::from(clashes);
        let mut p = trace_prologue(0);
        // memory: [total, (1, key, 1, value) * total]
        p.extend([PUSH(1 + 4 * total), ALOC, POP, PUSH(total), PUSH(0), STO]);
        if n > 0 {
            p.extend([PUSH(n), PUSH(1), REP]);
            // base = 1 + 4 * counter
            p.extend([REPC, PUSH(4), MUL, PUSH(1), ADD]); // [base]
            p.extend([DUP, PUSH(1), SWAP, STO]); // mem[base] = 1
            p.extend([DUP, PUSH(1), ADD, REPC, PUSH(1000 * (si as i64 + 1)), ADD, SWAP, STO]); // mem[base+1] = key
            p.extend([DUP, PUSH(2), ADD, PUSH(1), SWAP, STO]); // mem[base+2] = 1
            p.extend([PUSH(3), ADD, PUSH(9), SWAP, STO]); // mem[base+3] = 9
            p.push(REPE);
        }
        if clashes {
            let base = 1 + 4 * n;
            for (off, w) in [(0, 1i64), (1, clash), (2, 1), (3, 40 + si as i64)] {
                p.extend([PUSH(w), PUSH(base + off), STO]);
            }
        }
        p.push(PUSH(2));
        predicates.push(PredSpec {
            nodes: vec![NodeSpec { edge_start: LEAF, prog: programs.len() }],
            edges: vec![],
        });
        programs.push(p);
        solutions.push(SolSpec {
            pred: si,
            contract: C_A,
            data: vec![vec![sol_tag(si)]],
            mutations: vec![],
        });
    }
    GraphCase {
        programs,
        predicates,
        solutions,
        pre_state: MapSpec::default(),
        collect_all: ch.chance(1, 2),
        mode: [0u8, 2][ch.pick(2)],
        raw_programs: vec![],
    }
}
