//! Generators for protocol values (predicates, contracts, solutions) as plain model structs.

use super::{bytes32, word};
use crate::model::vm::MSolution;
use essential_types::contract::Contract;
use essential_types::predicate::{Node, Predicate};
use essential_types::ContentAddress;
use proptest::prelude::*;
use serde::{Deserialize, Serialize};

#[derive(Clone, Debug, Default, PartialEq, Eq, Hash, PartialOrd, Ord, Serialize, Deserialize)]
pub struct PredM {
    pub nodes: Vec<(u16, [u8; 32])>,
    pub edges: Vec<u16>,
}

impl PredM {
    pub fn to_real(&self) -> Predicate {
        Predicate {
            nodes: self
                .nodes
                .iter()
                .map(|(e, a)| Node {
                    edge_start: *e,
                    program_address: ContentAddress(*a),
                })
                .collect(),
            edges: self.edges.clone(),
        }
    }
    pub fn from_real(p: &Predicate) -> Self {
        PredM {
            nodes: p.nodes.iter().map(|n| (n.edge_start, n.program_address.0)).collect(),
            edges: p.edges.clone(),
        }
    }
}

#[derive(Clone, Debug, Default, PartialEq, Eq, Hash, Serialize, Deserialize)]
pub struct ContractM {
    pub preds: Vec<PredM>,
    pub salt: [u8; 32],
}

impl ContractM {
    pub fn to_real(&self) -> Contract {
        Contract {
            predicates: self.preds.iter().map(|p| p.to_real()).collect(),
            salt: self.salt,
        }
    }
}

pub fn edge_start() -> impl Strategy<Value = u16> {
    prop_oneof![4 => 0u16..6, 2 => Just(u16::MAX), 1 => any::<u16>()]
}

pub fn pred_sized(nodes: impl Strategy<Value = usize>, edges: impl Strategy<Value = usize>) -> impl Strategy<Value = PredM> {
    (nodes, edges, any::<u64>(), any::<bool>()).prop_flat_map(|(n, m, seed, patterned)| {
        if n <= 8 && m <= 12 && !patterned {
            (proptest::collection::vec((edge_start(), bytes32()), n), proptest::collection::vec(prop_oneof![3 => 0u16..8, 1 => any::<u16>()], m))
                .prop_map(|(nodes, edges)| PredM { nodes, edges })
                .boxed()
        } else {
            // large values: pseudo-random contents from a seed (cheap to generate and to shrink)
            Just({
                let mut x = seed | 1;
                let mut next = move || {
                    x ^= x << 13;
                    x ^= x >> 7;
                    x ^= x << 17;
                    x
                };
                let nodes = (0..n)
                    .map(|_| {
                        let mut a = [0u8; 32];
                        for c in a.chunks_mut(8) {
                            c.copy_from_slice(&next().to_be_bytes());
                        }
                        ((next() % 7) as u16, a)
                    })
                    .collect();
                let edges = (0..m).map(|_| (next() % 1000) as u16).collect();
                PredM { nodes, edges }
            })
            .boxed()
        }
    })
}

pub fn small_count() -> impl Strategy<Value = usize> {
    prop_oneof![3 => 0usize..4, 2 => 4usize..9]
}

/// Mostly small predicates; sometimes a few dozen nodes (encodings beyond 1 KiB); rarely at the limits.
pub fn pred() -> impl Strategy<Value = PredM> {
    prop_oneof![
        12 => pred_sized(small_count(), small_count()),
        3 => pred_sized(25usize..70, 0usize..40),
        1 => pred_sized(110usize..300, 0usize..40),
        1 => pred_sized(prop_oneof![Just(999usize), Just(1000usize)], prop_oneof![Just(0usize), Just(999usize), Just(1000usize)]),
        1 => pred_sized(0usize..3, prop_oneof![Just(999usize), Just(1000usize)]),
    ]
}

pub fn small_pred() -> impl Strategy<Value = PredM> {
    pred_sized(small_count(), small_count())
}

pub fn contract() -> impl Strategy<Value = ContractM> {
    (
        prop_oneof![6 => proptest::collection::vec(small_pred(), 0..5), 1 => proptest::collection::vec(pred(), 0..3), 1 => proptest::collection::vec(small_pred(), 5..21), 1 => proptest::collection::vec(small_pred(), 30..35), 1 => proptest::collection::vec(small_pred(), 62..67)],
        bytes32(),
        proptest::option::weighted(0.25, any::<u32>()),
    )
        .prop_map(|(mut preds, salt, dup)| {
            // sometimes the same predicate twice (contracts are multisets)
            if let (Some(i), false) = (dup, preds.is_empty()) {
                let p = preds[super::pick_ix(i, preds.len())].clone();
                preds.push(p);
            }
            ContractM { preds, salt }
        })
}

pub fn solution() -> impl Strategy<Value = MSolution> {
    let val = || prop_oneof![5 => proptest::collection::vec(word(), 0..4), 1 => proptest::collection::vec(word(), 20..30)];
    (bytes32(), bytes32(), proptest::collection::vec(val(), 0..4), proptest::collection::vec((val(), val()), 0..4)).prop_map(|(contract, predicate, data, mutations)| MSolution {
        contract,
        predicate,
        data,
        mutations,
    })
}

pub fn solutions(max: usize) -> impl Strategy<Value = Vec<MSolution>> {
    (proptest::collection::vec(solution(), 0..=max), proptest::option::weighted(0.2, any::<u32>())).prop_map(|(mut s, dup)| {
        if let (Some(i), false) = (dup, s.is_empty()) {
            let x = s[super::pick_ix(i, s.len())].clone();
            s.push(x);
        }
        s
    })
}
