//! Shared generators (DESIGN §4).

use crate::model::ops::{MOp, ALL, TABLE};
use proptest::prelude::*;

pub mod programs;
pub mod cases;
pub mod graphs;
pub mod values;

/// Boundary words B (DESIGN §4.1).
pub const BOUNDARY: &[i64] = &[
    0,
    1,
    -1,
    2,
    -2,
    3,
    4,
    5,
    7,
    8,
    9,
    16,
    31,
    32,
    33,
    62,
    63,
    64,
    65,
    255,
    256,
    4094,
    4095,
    4096,
    4097,
    5119,
    5120,
    5121,
    10239,
    10240,
    10241,
    1 << 31,
    -(1 << 31),
    (1 << 31) - 1,
    1 << 32,
    -(1 << 32),
    1 << 62,
    -(1 << 62),
    i64::MIN,
    i64::MIN + 1,
    i64::MAX - 1,
    i64::MAX,
];

pub fn boundary_word() -> impl Strategy<Value = i64> {
    (0..BOUNDARY.len()).prop_map(|i| BOUNDARY[i])
}

/// A word carrying a valid opcode byte at some byte position (for codec / effect-scan properties).
pub fn opcode_byte_word() -> impl Strategy<Value = i64> {
    (0..TABLE.len(), 0usize..8, any::<i64>(), any::<bool>()).prop_map(|(op, pos, base, zero_rest)| {
        let mut bytes = if zero_rest { [0u8; 8] } else { base.to_be_bytes() };
        bytes[pos] = TABLE[op].2;
        i64::from_be_bytes(bytes)
    })
}

/// General word strategy: boundary set, small ranges, opcode-carrying words, uniform.
pub fn word() -> impl Strategy<Value = i64> {
    prop_oneof![
        4 => boundary_word(),
        4 => -4i64..12,
        2 => 0i64..200,
        1 => opcode_byte_word(),
        2 => any::<i64>(),
    ]
}

pub fn small_word() -> impl Strategy<Value = i64> {
    prop_oneof![3 => 0i64..6, 1 => -3i64..20]
}

/// Index-like operand relative to a length.
pub fn index_like(len: usize) -> BoxedStrategy<i64> {
    let l = len as i64;
    prop_oneof![
        3 => Just(0i64),
        2 => Just(1i64),
        2 => Just(l - 2),
        3 => Just(l - 1),
        2 => Just(l),
        1 => Just(l + 1),
        1 => Just(-1i64),
        1 => Just(i64::MAX),
        1 => Just(i64::MIN),
        4 => 0..(l.max(1)),
        1 => any::<i64>(),
    ]
    .boxed()
}

/// Uniform over all 62 ops, immediates from `word()`.
pub fn any_mop() -> impl Strategy<Value = MOp> {
    (0..ALL.len(), word()).prop_map(|(i, w)| match ALL[i] {
        MOp::PUSH(_) => MOp::PUSH(w),
        op => op,
    })
}

/// Ops with `Push` weighted up (programs need operands).
pub fn mop_pushy() -> impl Strategy<Value = MOp> {
    prop_oneof![
        2 => word().prop_map(MOp::PUSH),
        3 => any_mop(),
    ]
}

pub fn words(max: usize) -> impl Strategy<Value = Vec<i64>> {
    proptest::collection::vec(word(), 0..=max)
}

pub fn bytes32() -> impl Strategy<Value = [u8; 32]> {
    prop_oneof![
        1 => Just([0u8; 32]),
        1 => Just([0xffu8; 32]),
        6 => any::<[u8; 32]>(),
        2 => (any::<u8>()).prop_map(|b| [b; 32]),
    ]
}

/// Monotone index mapping (shrinks towards earlier alternatives).
pub fn pick_ix(choice: u32, len: usize) -> usize {
    if len == 0 {
        return 0;
    }
    ((choice as u64 * len as u64) >> 32) as usize
}
