//! Generators for whole `ExecCase`s: initial machine states, solution data, state doubles, gas tables.

use super::{boundary_word, small_word, word};
use crate::doubles::{CostTable, MapSpec, StateSpec, ViewSpec};
use crate::model::ops::{MOp, N_OPS};
use crate::model::vm::{MSolution, MState, RSlot};
use crate::real::ExecCase;
use proptest::prelude::*;

pub fn cost_value() -> impl Strategy<Value = u64> {
    prop_oneof![
        2 => Just(0u64),
        6 => Just(1u64),
        2 => Just(2u64),
        2 => 0u64..20,
        1 => Just(1000u64),
        1 => Just(1u64 << 32),
        1 => Just(1u64 << 62),
        1 => Just(1u64 << 63),
        1 => Just(u64::MAX - 1),
        1 => Just(u64::MAX),
    ]
}

/// Mostly cheap tables; sometimes a few opcodes get extreme costs.
pub fn cost_table() -> impl Strategy<Value = CostTable> {
    prop_oneof![
        3 => Just(CostTable::uniform(1)),
        1 => Just(CostTable::uniform(0)),
        2 => (0u64..5).prop_map(CostTable::uniform),
        3 => proptest::collection::vec(prop_oneof![0u64..4, 0u64..4, 0u64..50], N_OPS).prop_map(CostTable),
        3 => (proptest::collection::vec(0u64..3, N_OPS), proptest::collection::vec((0..N_OPS, cost_value()), 1..4)).prop_map(|(mut t, over)| {
            for (i, c) in over {
                t[i] = c;
            }
            CostTable(t)
        }),
    ]
}

pub fn limit_value() -> impl Strategy<Value = u64> {
    prop_oneof![
        4 => Just(u64::MAX),
        1 => Just(u64::MAX - 1),
        1 => Just(0u64),
        1 => Just(1u64),
        3 => 0u64..60,
        2 => 60u64..2000,
        1 => Just(1u64 << 62),
        1 => Just(1u64 << 63),
    ]
}

pub fn repeat_state() -> impl Strategy<Value = Vec<RSlot>> {
    let slot = prop_oneof![
        (prop_oneof![-1i64..5, boundary_word()], 0i64..4, 0usize..6).prop_map(|(limit, c, start)| RSlot::Up {
            counter: c.min(limit.saturating_sub(1)).max(0),
            limit,
            start
        }),
        (prop_oneof![-1i64..5, boundary_word()], 0usize..6).prop_map(|(counter, start)| RSlot::Down { counter, start }),
    ];
    prop_oneof![4 => Just(vec![]), 3 => proptest::collection::vec(slot, 1..4)]
}

pub fn init_state() -> impl Strategy<Value = MState> {
    (
        prop_oneof![5 => proptest::collection::vec(word(), 0..6), 1 => (4090usize..=4096, word()).prop_map(|(n, w)| vec![w; n])],
        prop_oneof![4 => proptest::collection::vec(word(), 0..8), 2 => proptest::collection::vec(small_word(), 48..60), 1 => (10230usize..=10240).prop_map(|n| vec![1; n])],
        repeat_state(),
        prop_oneof![8 => Just(0usize), 1 => 0usize..6],
    )
        .prop_map(|(stack, memory, repeat, pc)| MState { pc, stack, memory, repeat })
}

pub fn solutions() -> impl Strategy<Value = (Vec<MSolution>, usize)> {
    let sol = (
        prop_oneof![Just([7u8; 32]), Just([8u8; 32]), super::bytes32()],
        super::bytes32(),
        proptest::collection::vec(proptest::collection::vec(word(), 0..5), 0..4),
    )
        .prop_map(|(contract, predicate, data)| MSolution {
            contract,
            predicate,
            data,
            mutations: vec![],
        });
    (proptest::collection::vec(sol, 1..4), any::<u32>()).prop_map(|(s, i)| {
        let ix = super::pick_ix(i, s.len());
        (s, ix)
    })
}

pub fn view_spec() -> impl Strategy<Value = ViewSpec> {
    let kvs = || proptest::collection::vec((proptest::collection::vec(-2i64..3, 0..3), proptest::collection::vec(word(), 0..4)), 0..6);
    prop_oneof![
        4 => (kvs(), kvs()).prop_map(|(a, b)| ViewSpec::Map(MapSpec {
            contracts: vec![([7; 32], a), (crate::props::c08::ext_contract(), b)],
            fail_contracts: vec![],
        })),
        // scripted answers: ragged, empty, oversize
        2 => proptest::collection::vec(proptest::collection::vec(word(), 0..5), 0..5).prop_map(|v| ViewSpec::Scripted(Ok(v))),
        1 => (1usize..40, 1usize..600).prop_map(|(n, len)| ViewSpec::Scripted(Ok(vec![vec![5; len]; n]))),
        1 => Just(ViewSpec::Scripted(Err("scripted failure".to_string()))),
    ]
}

pub fn state_spec() -> impl Strategy<Value = StateSpec> {
    (view_spec(), view_spec()).prop_map(|(pre, post)| StateSpec { pre, post })
}

/// A full case around a program strategy.
pub fn exec_case(prog: impl Strategy<Value = Vec<MOp>>, rich_init: bool) -> impl Strategy<Value = ExecCase> {
    (
        prog,
        if rich_init { init_state().boxed() } else { Just(MState::default()).boxed() },
        solutions(),
        state_spec(),
        cost_table(),
        limit_value(),
        proptest::option::weighted(0.15, proptest::collection::vec(word(), 0..60)),
    )
        .prop_map(|(prog, init, (solutions, index), state, costs, limit, parent)| ExecCase {
            parent,
            halt: false,
            prog,
            init,
            solutions,
            index,
            state,
            costs,
            limit,
        })
}
