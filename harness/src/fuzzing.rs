//! Coverage-guided fuzzing integration (DESIGN §2.8): byte decoders that drive the *same* oracles as the
//! property sub-checks. Each target is also registered as a sub-check `fuzz.<target>` of its property
//! (random byte strings through proptest), which gives crash artifacts an ordinary replay path.

use crate::engine::{prop_sub, Obs, Sub, Violation};
use crate::gen::graphs::{build_case, GraphCfg};
use crate::gen::BOUNDARY;
use crate::model::ops::MOp::{self, *};
use crate::model::ops::ALL;
use proptest::prelude::*;
use serde::{Deserialize, Serialize};

pub struct FuzzTarget {
    pub name: &'static str,
    pub property: &'static str,
    pub max_len: usize,
    /// libFuzzer executions per job in the thorough tier (8 jobs).
    pub runs_per_job: u64,
    pub quick_random: u64,
    pub thorough_random: u64,
}

pub const TARGETS: &[FuzzTarget] = &[
    FuzzTarget { name: "vm_bytes", property: "C05", max_len: 160, runs_per_job: 40_000, quick_random: 4_000, thorough_random: 200_000 },
    FuzzTarget { name: "vm_ops", property: "C05", max_len: 200, runs_per_job: 40_000, quick_random: 4_000, thorough_random: 200_000 },
    FuzzTarget { name: "asm_codec", property: "C13", max_len: 120, runs_per_job: 600_000, quick_random: 4_000, thorough_random: 200_000 },
    FuzzTarget { name: "decoders", property: "C06", max_len: 256, runs_per_job: 600_000, quick_random: 4_000, thorough_random: 200_000 },
    FuzzTarget { name: "check_hostile", property: "C06", max_len: 1600, runs_per_job: 25_000, quick_random: 1_000, thorough_random: 50_000 },
    FuzzTarget { name: "graph_sem", property: "C01", max_len: 1600, runs_per_job: 25_000, quick_random: 1_000, thorough_random: 50_000 },
];

#[derive(Clone, Debug, Hash, Serialize, Deserialize)]
pub struct FuzzBytes(pub Vec<u8>);

fn word_from(it: &mut std::slice::Iter<u8>) -> i64 {
    match it.next().copied() {
        None => 0,
        Some(0xff) => {
            let mut b = [0u8; 8];
            for x in b.iter_mut() {
                *x = it.next().copied().unwrap_or(0);
            }
            i64::from_be_bytes(b)
        }
        Some(0xfe) => it.next().copied().unwrap_or(0) as i64,
        Some(b) => BOUNDARY[b as usize % BOUNDARY.len()],
    }
}

pub fn decode_ops(data: &[u8]) -> (Vec<i64>, Vec<MOp>) {
    let mut it = data.iter();
    let n = it.next().copied().unwrap_or(0) as usize % 6;
    let stack: Vec<i64> = (0..n).map(|_| word_from(&mut it)).collect();
    let mut ops = Vec::new();
    while let Some(b) = it.next() {
        if b & 0x80 != 0 {
            ops.push(PUSH(word_from(&mut it)));
        } else {
            let op = ALL[*b as usize % ALL.len()];
            ops.push(if let PUSH(_) = op { PUSH((*b >> 6) as i64) } else { op });
        }
        if ops.len() >= 120 {
            break;
        }
    }
    (stack, ops)
}

fn choices(data: &[u8]) -> Vec<u32> {
    data.chunks(4)
        .map(|c| {
            let mut b = [0u8; 4];
            b[..c.len()].copy_from_slice(c);
            u32::from_le_bytes(b)
        })
        .collect()
}

/// Run the target's oracle on a byte string.
pub fn entry(target: &str, data: &[u8], obs: &mut Obs) -> Result<(), Violation> {
    match target {
        "vm_bytes" => crate::props::c05::oracle_bytes(
            &crate::props::c05::BytesCase {
                bytes: data.to_vec(),
                init_stack: vec![],
            },
            obs,
        ),
        "vm_ops" => {
            let (stack, ops) = decode_ops(data);
            let mut case = crate::props::c08::program_case(ops);
            case.init.stack = stack;
            crate::props::c05::oracle(&case, obs)
        }
        "asm_codec" => {
            crate::props::c13::check_parse(data, obs)?;
            if let Ok((mops, _)) = crate::model::asm::decode(data) {
                crate::props::c13::check_roundtrip(&mops, obs)?;
            }
            Ok(())
        }
        "decoders" => {
            let (sel, rest) = data.split_first().map(|(a, b)| (*a, b)).unwrap_or((0, &[]));
            if sel % 2 == 0 {
                let mut it = rest.iter();
                let mut ws = Vec::new();
                while it.len() > 0 && ws.len() < 64 {
                    ws.push(word_from(&mut it));
                }
                crate::props::c06::oracle_words_pub(&ws, obs)
            } else {
                crate::props::c06::oracle_pred_bytes_pub(rest, obs)
            }
        }
        "check_hostile" => {
            let cfg = GraphCfg {
                max_nodes: 8,
                corrupt_pct: 30,
                dangling_pct: 15,
                hostile: true,
                slot_collision_pct: 5,
                ..Default::default()
            };
            crate::props::c06::oracle_hostile_pub(&build_case(choices(data), &cfg), obs)
        }
        "graph_sem" => {
            let cfg = GraphCfg::default();
            crate::props::c01::oracle_pub(&build_case(choices(data), &cfg), obs)
        }
        _ => Err(Violation::new("harness:unknown-target", target.to_string())),
    }
}

/// Called from the libFuzzer targets: abort on a violation so that libFuzzer saves the input.
pub fn fuzz_main(target: &str, data: &[u8]) {
    static ONCE: std::sync::Once = std::sync::Once::new();
    ONCE.call_once(crate::engine::install_panic_hook);
    let mut obs = Obs::default();
    if let Err(v) = entry(target, data, &mut obs) {
        if !crate::engine::known::is_known(target_property(target), &v) {
            eprintln!("VIOLATION (fuzz target {target}) signature={} {}", v.signature, v.message);
            std::process::abort();
        }
    }
}

pub fn target_property(target: &str) -> &'static str {
    TARGETS.iter().find(|t| t.name == target).map(|t| t.property).unwrap_or("")
}

/// The sub-checks `fuzz.<target>` of a property.
pub fn subs_for(property: &str) -> Vec<Sub> {
    let mut v = Vec::new();
    for t in TARGETS.iter().filter(|t| t.property == property) {
        let name: &'static str = Box::leak(format!("fuzz.{}", t.name).into_boxed_str());
        let target = t.name;
        let max_len = t.max_len;
        v.push(
            prop_sub(
                name,
                t.quick_random,
                t.thorough_random,
                move |_| proptest::collection::vec(any::<u8>(), 0..max_len).prop_map(FuzzBytes),
                move |c: &FuzzBytes, obs| entry(target, &c.0, obs),
            )
            .may_abort(),
        );
    }
    v
}

/// `ebv gen-seeds <dir>`: writes small valid inputs for the byte-level targets (dev-time; the result is committed
/// under fuzz/seeds/). Deterministic.
pub fn gen_seeds(dir: &std::path::Path) -> i32 {
    use proptest::strategy::ValueTree;
    use proptest::test_runner::{Config, RngSeed, TestRunner};
    let mut runner = TestRunner::new(Config {
        rng_seed: RngSeed::Fixed(7),
        failure_persistence: None,
        ..Config::default()
    });
    let mut write = |target: &str, i: usize, bytes: &[u8]| {
        let d = dir.join(target);
        let _ = std::fs::create_dir_all(&d);
        let _ = std::fs::write(d.join(format!("seed-{i:02}")), bytes);
    };
    // programs from the repository's own tests, as bytecode
    let known: Vec<Vec<MOp>> = vec![
        vec![PUSH(6), PUSH(7), MUL, PUSH(42), EQ],
        vec![PUSH(42), PUSH(2), PUSH(1), PUSH(0), PUSH(3), DUPF],
        vec![PUSH(3), PUSH(1), REP, REPC, REPE],
        vec![PUSH(2), COM, PUSH(1), ALOC, STO, COME],
        vec![PUSH(1), PUSH(1), PUSH(1), PUSH(0), PUSH(2), ALOC, KRNG],
        vec![PUSH(2), PUSH(1), JMPIF, HLT, PUSH(1)],
    ];
    let mut n = 0;
    for p in &known {
        let b = crate::model::asm::encode(p);
        write("vm_bytes", n, &b);
        write("asm_codec", n, &b);
        n += 1;
    }
    let strat = crate::gen::programs::structured(crate::gen::programs::StructCfg::default());
    for _ in 0..14 {
        if let Ok(t) = strat.new_tree(&mut runner) {
            let b = crate::model::asm::encode(&t.current());
            if b.len() <= 160 {
                write("vm_bytes", n, &b);
                write("asm_codec", n, &b);
                n += 1;
            }
        }
    }
    // decoders: selector byte + canonical mutation list as table indices / a valid predicate encoding
    let pred = crate::model::codec::encode_predicate(&[(0, [1; 32]), (u16::MAX, [2; 32])], &[1]);
    let mut b = vec![1u8];
    b.extend(&pred);
    write("decoders", 0, &b);
    // words via the 0xfe escape: [2, (1,[5],1,[6]), (0,[],0,[])]
    let words = [2u8, 1, 5, 1, 6, 0, 0];
    let mut b = vec![0u8];
    for w in words {
        b.extend([0xfe, w]);
    }
    write("decoders", 1, &b);
    0
}
