//! ebv — property-based / fuzzing verification harness for essential-base (see /verif/DESIGN.md).
#![allow(clippy::type_complexity, clippy::too_many_arguments)]

pub mod engine;
pub mod gen;
pub mod model;
pub mod doubles;
pub mod props;
pub mod real;
pub mod chk;
pub mod fuzzing;
