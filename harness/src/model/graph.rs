//! RefGraph — reference semantics of a solution-set check (DESIGN §3.4), written from the statements
//! of C01 and C03. Node programs are executed on the real VM (whose correctness is decided separately,
//! C05–C12); everything about graphs, passes, deferral, overlays and verdicts is independent of
//! `crates/check`.

use crate::doubles::{next_key, Addr, MapSpec, ViewImpl, MATERIALISE_CAP};
use crate::model::codec;
use crate::model::ops::MOp;
use crate::model::vm::MSolution;
use essential_types::{ContentAddress, Key, Word};
use essential_vm::{StateRead, StateReads};
use serde::{Deserialize, Serialize};
use std::collections::{BTreeMap, BTreeSet};
use std::sync::Arc;

pub const LEAF: u16 = u16::MAX;

#[derive(Clone, Debug, PartialEq, Eq, Hash, Serialize, Deserialize)]
pub struct NodeSpec {
    pub edge_start: u16,
    /// Index into the case's program pool.
    pub prog: usize,
}

#[derive(Clone, Debug, Default, PartialEq, Eq, Hash, Serialize, Deserialize)]
pub struct PredSpec {
    pub nodes: Vec<NodeSpec>,
    pub edges: Vec<u16>,
}

#[derive(Clone, Debug, PartialEq, Eq, Hash, Serialize, Deserialize)]
pub struct SolSpec {
    /// Index into the case's predicate list.
    pub pred: usize,
    pub contract: Addr,
    pub data: Vec<Vec<i64>>,
    pub mutations: Vec<(Vec<i64>, Vec<i64>)>,
}

#[derive(Clone, Debug, PartialEq, Eq, Hash, Serialize, Deserialize)]
pub struct GraphCase {
    pub programs: Vec<Vec<MOp>>,
    pub predicates: Vec<PredSpec>,
    pub solutions: Vec<SolSpec>,
    pub pre_state: MapSpec,
    pub collect_all: bool,
    /// 0 = two-pass entry point, 1 = check_set_predicates twice over a shared cache,
    /// 2 = check_and_compute_solution_set twice over a shared cache.
    pub mode: u8,
    /// Hostile cases only (C06): program pool entries replaced by arbitrary bytes (possibly unparsable).
    #[serde(default)]
    pub raw_programs: Vec<(usize, Vec<u8>)>,
}

/// Edge slice of every node by the documented rule of `Predicate::node_edges`.
/// Err(node) = the slice of that node is out of range (malformed edge list).
pub fn edge_slices(p: &PredSpec) -> Result<Vec<Vec<u16>>, usize> {
    let mut out = Vec::with_capacity(p.nodes.len());
    for (i, n) in p.nodes.iter().enumerate() {
        if n.edge_start == LEAF {
            out.push(vec![]);
            continue;
        }
        let start = n.edge_start as usize;
        let end = match p.nodes.get(i + 1) {
            Some(next) if next.edge_start != LEAF => next.edge_start as usize,
            _ => p.edges.len(),
        };
        if start > end || end > p.edges.len() {
            return Err(i);
        }
        out.push(p.edges[start..end].to_vec());
    }
    Ok(out)
}

#[derive(Clone, Debug)]
pub struct Analysis {
    pub children: Vec<Vec<u16>>,
    /// Parents in ascending node order, one entry per edge.
    pub parents: Vec<Vec<u16>>,
    /// A topological order (parents first); None if the graph has a cycle.
    pub topo: Option<Vec<u16>>,
    /// Some edge points at a node index >= node count.
    pub dangling: bool,
    pub leaf: Vec<bool>,
    /// Longest-path level of each node (for shape statistics).
    pub level: Vec<usize>,
}

pub fn analyse(p: &PredSpec) -> Result<Analysis, usize> {
    let children = edge_slices(p)?;
    let n = p.nodes.len();
    let mut parents: Vec<Vec<u16>> = vec![vec![]; n];
    let mut dangling = false;
    for (i, cs) in children.iter().enumerate() {
        for c in cs {
            if (*c as usize) < n {
                parents[*c as usize].push(i as u16);
            } else {
                dangling = true;
            }
        }
    }
    // Kahn
    let mut indeg: Vec<usize> = parents.iter().map(|p| p.len()).collect();
    let mut ready: BTreeSet<u16> = (0..n as u16).filter(|i| indeg[*i as usize] == 0).collect();
    let mut topo = Vec::with_capacity(n);
    let mut level = vec![0usize; n];
    while let Some(&x) = ready.iter().next() {
        ready.remove(&x);
        topo.push(x);
        for c in &children[x as usize] {
            let c = *c as usize;
            if c < n {
                level[c] = level[c].max(level[x as usize] + 1);
                indeg[c] -= 1;
                if indeg[c] == 0 {
                    ready.insert(c as u16);
                }
            }
        }
    }
    let leaf = children.iter().map(|c| c.is_empty()).collect();
    Ok(Analysis {
        children,
        parents,
        topo: if topo.len() == n { Some(topo) } else { None },
        dangling,
        leaf,
        level,
    })
}

pub fn has_post_read(prog: &[MOp]) -> bool {
    prog.iter().any(|o| matches!(o, MOp::PKRNG | MOp::PKREX))
}

/// Deferred set: post-reading nodes and all their descendants (true transitive closure).
pub fn deferred_set(a: &Analysis, post_reader: &[bool]) -> Vec<bool> {
    let n = post_reader.len();
    let mut d = vec![false; n];
    let mut stack: Vec<usize> = (0..n).filter(|i| post_reader[*i]).collect();
    while let Some(x) = stack.pop() {
        if d[x] {
            continue;
        }
        d[x] = true;
        for c in &a.children[x] {
            if (*c as usize) < n {
                stack.push(*c as usize);
            }
        }
    }
    d
}

// ------------------------------------------------------------------------------------------
// State views used for reference evaluation (non recording).

pub type Overlay = BTreeMap<(Addr, Vec<i64>), Vec<i64>>;

pub type ReadLog = Arc<std::sync::Mutex<Vec<(Addr, Vec<i64>, usize)>>>;

#[derive(Clone)]
pub enum RefView {
    Pre(Arc<ViewImpl>),
    /// pre-state, overlay, and a log of the post-state requests made during reference evaluation
    Post(Arc<ViewImpl>, Arc<Overlay>, ReadLog),
}

#[derive(Debug)]
pub struct RefStErr(pub String);
impl std::fmt::Display for RefStErr {
    fn fmt(&self, f: &mut std::fmt::Formatter<'_>) -> std::fmt::Result {
        write!(f, "{}", self.0)
    }
}

/// Post-state as C03 states it: for each key of the range the proposed value, otherwise the pre-state value.
pub fn overlay_read(pre: &ViewImpl, overlay: &Overlay, contract: &Addr, key: &[i64], count: usize) -> Result<Vec<Vec<i64>>, String> {
    let mut out = Vec::new();
    let mut k = key.to_vec();
    for _ in 0..count.min(MATERIALISE_CAP) {
        match overlay.get(&(*contract, k.clone())) {
            Some(v) => out.push(v.clone()),
            None => {
                let mut v = pre.read(contract, &k, 1).map_err(|e| e.0)?;
                out.push(v.pop().unwrap_or_default());
            }
        }
        match next_key(k) {
            Some(n) => k = n,
            None => break,
        }
    }
    Ok(out)
}

impl StateRead for RefView {
    type Error = RefStErr;
    fn key_range(&self, c: ContentAddress, key: Key, n: usize) -> Result<Vec<Vec<Word>>, RefStErr> {
        match self {
            RefView::Pre(p) => p.read(&c.0, &key, n).map_err(|e| RefStErr(e.0)),
            RefView::Post(p, o, log) => {
                log.lock().unwrap().push((c.0, key.clone(), n));
                overlay_read(p, o, &c.0, &key, n).map_err(RefStErr)
            }
        }
    }
}

#[derive(Clone)]
pub struct RefViews {
    pub pre: RefView,
    pub post: RefView,
}
impl StateReads for RefViews {
    type Error = RefStErr;
    type Pre = RefView;
    type Post = RefView;
    fn pre(&self) -> &RefView {
        &self.pre
    }
    fn post(&self) -> &RefView {
        &self.post
    }
}

// ------------------------------------------------------------------------------------------
// Reference evaluation.

#[derive(Clone, Debug, PartialEq, Eq)]
pub enum SolFail {
    /// Cyclic graph or malformed edge list: rejected, nothing evaluated.
    InvalidGraph,
    /// Root-cause failures (nodes failing although all their ancestors succeeded) and the nodes that were
    /// not evaluated by the reference because an ancestor failed.
    Programs { root: BTreeSet<u16>, downstream: BTreeSet<u16> },
    Unsatisfied(BTreeSet<u16>),
}

#[derive(Clone, Debug, PartialEq, Eq)]
pub enum RefVerdict {
    Ok {
        gas: u64,
        /// Per solution: data-output memories of pass 1 and pass 2 (each a multiset, kept sorted).
        outputs: Vec<(Vec<Vec<i64>>, Vec<Vec<i64>>)>,
        /// Per solution: computed mutations (pass 1 then pass 2), as multiset (sorted).
        computed: Vec<Vec<(Vec<i64>, Vec<i64>)>>,
    },
    /// Predicate checking fails in the given pass for these solutions.
    Failed { pass: u8, per_solution: BTreeMap<usize, SolFail> },
    /// All programs fine in the given pass but the data outputs do not decode / collide: any of these solutions may be blamed.
    Mutations { pass: u8, blamed: BTreeSet<usize> },
    Unspecified(&'static str),
}

#[derive(Clone, Debug, Default)]
pub struct RefTrace {
    /// (solution, node) pairs in the order the reference evaluated them, with the pass.
    pub evaluated: Vec<(usize, u16, u8)>,
    /// For statistics.
    pub post_reads_saw_overlay: bool,
    pub deferred_nodes: usize,
    pub deferred_with_lower_numbered_descendant: bool,
    pub computed_mutations: usize,
    pub post_reads: usize,
    pub post_read_saw_declared: bool,
    pub post_read_saw_computed: bool,
    pub post_read_saw_deletion: bool,
    pub post_read_carry: bool,
    pub post_read_straddles: bool,
}

pub fn to_msolutions(case: &GraphCase, pred_addr: &[Addr]) -> Vec<MSolution> {
    case.solutions
        .iter()
        .map(|s| MSolution {
            contract: s.contract,
            predicate: pred_addr[s.pred],
            data: s.data.clone(),
            mutations: s.mutations.clone(),
        })
        .collect()
}

struct NodeOut {
    stack: Vec<i64>,
    memory: Vec<i64>,
}

/// The reference views as RefVm sees them.
struct ModelAdapter<'a>(&'a RefViews);

impl crate::model::vm::ModelState for ModelAdapter<'_> {
    fn read(&self, post: bool, contract: &[u8; 32], key: &[i64], count: usize) -> Result<Vec<Vec<i64>>, String> {
        let v = if post { &self.0.post } else { &self.0.pre };
        v.key_range(ContentAddress(*contract), key.to_vec(), count).map_err(|e| e.0)
    }
}

/// Execute one node program on **RefVm** from the concatenation of its parents' outputs (cost 1, no limit).
/// Err(None) = the program (or the concatenation) fails; Err(Some(r)) = unspecified behaviour was reached.
fn exec_node(
    prog: &[MOp],
    inputs: &[&NodeOut],
    msols: &[MSolution],
    index: usize,
    views: &RefViews,
) -> Result<(NodeOut, u64), Option<&'static str>> {
    use crate::model::vm as mvm;
    let mut stack = Vec::new();
    let mut memory = Vec::new();
    for i in inputs {
        stack.extend_from_slice(&i.stack);
        memory.extend_from_slice(&i.memory);
    }
    if stack.len() > mvm::S || memory.len() > mvm::M {
        return Err(None);
    }
    let adapter = ModelAdapter(views);
    let cost = |_: &MOp| 1u64;
    let env = mvm::Env {
        solutions: msols,
        index,
        state: &adapter,
        cost: &cost,
        steps_left: std::cell::Cell::new(5_000_000),
        breadth_cap: 10_000,
        cost_calls: std::cell::Cell::new(0),
    };
    let mut m = mvm::Machine::new(
        prog,
        mvm::MState {
            pc: 0,
            stack,
            memory,
            repeat: vec![],
        },
        &env,
        u64::MAX,
    );
    match m.run() {
        mvm::RunResult::Ok { gas, .. } => Ok((
            NodeOut {
                stack: m.st.stack.clone(),
                memory: m.st.memory.clone(),
            },
            gas,
        )),
        mvm::RunResult::Err { .. } => Err(None),
        mvm::RunResult::Unspec(r) => Err(Some(r)),
        mvm::RunResult::OverBudget => Err(Some("node program over the reference step budget")),
        mvm::RunResult::ExcludedBreadth => Err(Some("compute breadth above the reference cap")),
    }
}

struct PassResult {
    gas: u64,
    fails: BTreeMap<usize, SolFail>,
    /// per solution data-output memories
    outputs: Vec<Vec<Vec<i64>>>,
    /// a node program reached behaviour the reference leaves open
    unspecified: Option<&'static str>,
}

pub struct RefRun<'a> {
    pub case: &'a GraphCase,
    pub pred_addr: Vec<Addr>,
    pub analyses: Vec<Result<Analysis, usize>>,
    pub deferred: Vec<Vec<bool>>,
}

impl<'a> RefRun<'a> {
    pub fn new(case: &'a GraphCase, pred_addr: Vec<Addr>) -> Self {
        let analyses: Vec<Result<Analysis, usize>> = case.predicates.iter().map(analyse).collect();
        let deferred = case
            .predicates
            .iter()
            .zip(&analyses)
            .map(|(p, a)| match a {
                Ok(a) => {
                    let pr: Vec<bool> = p.nodes.iter().map(|n| has_post_read(&case.programs[n.prog])).collect();
                    deferred_set(a, &pr)
                }
                Err(_) => vec![],
            })
            .collect();
        RefRun {
            case,
            pred_addr,
            analyses,
            deferred,
        }
    }

    pub fn evaluate(&self, trace: &mut RefTrace) -> RefVerdict {
        let case = self.case;
        // graph validity per solution
        let mut invalid: BTreeMap<usize, SolFail> = BTreeMap::new();
        for (si, s) in case.solutions.iter().enumerate() {
            match &self.analyses[s.pred] {
                Err(_) => {
                    invalid.insert(si, SolFail::InvalidGraph);
                }
                Ok(a) => {
                    if a.topo.is_none() {
                        invalid.insert(si, SolFail::InvalidGraph);
                    } else if a.dangling {
                        return RefVerdict::Unspecified("edge target beyond the node list");
                    }
                }
            }
        }
        for (pi, d) in self.deferred.iter().enumerate() {
            if let Ok(a) = &self.analyses[pi] {
                let n = d.iter().filter(|x| **x).count();
                trace.deferred_nodes += n;
                // a deferred node with a descendant numbered below it
                for (i, is_d) in d.iter().enumerate() {
                    if *is_d && a.children[i].iter().any(|c| (*c as usize) < i) {
                        trace.deferred_with_lower_numbered_descendant = true;
                    }
                }
            }
        }
        let mut msols = to_msolutions(case, &self.pred_addr);
        let pre = Arc::new(ViewImpl::from_spec(&crate::doubles::ViewSpec::Map(case.pre_state.clone())));
        // ---- pass 1
        let views1 = RefViews {
            pre: RefView::Pre(pre.clone()),
            post: RefView::Post(pre.clone(), Arc::new(Overlay::new()), Default::default()),
        };
        let mut cache: Vec<BTreeMap<u16, NodeOut>> = (0..case.solutions.len()).map(|_| BTreeMap::new()).collect();
        let p1 = self.run_pass(1, &msols, &views1, &invalid, &mut cache, trace);
        if let Some(r) = p1.unspecified {
            return RefVerdict::Unspecified(r);
        }
        if !p1.fails.is_empty() {
            return RefVerdict::Failed {
                pass: 1,
                per_solution: p1.fails,
            };
        }
        // ---- mutations computed in pass 1
        let mut taken: BTreeSet<(Addr, Vec<i64>)> = BTreeSet::new();
        for s in &case.solutions {
            for (k, _) in &s.mutations {
                taken.insert((s.contract, k.clone()));
            }
        }
        let mut computed: Vec<Vec<(Vec<i64>, Vec<i64>)>> = vec![vec![]; case.solutions.len()];
        let mut blamed = BTreeSet::new();
        self.absorb_outputs(&p1.outputs, &mut taken, &mut computed, &mut blamed);
        if !blamed.is_empty() {
            return RefVerdict::Mutations { pass: 1, blamed };
        }
        trace.computed_mutations = computed.iter().map(|c| c.len()).sum();
        // ---- post state
        let mut overlay = Overlay::new();
        for (si, s) in case.solutions.iter().enumerate() {
            for (k, v) in s.mutations.iter().chain(computed[si].iter()) {
                overlay.insert((s.contract, k.clone()), v.clone());
            }
        }
        for (si, s) in msols.iter_mut().enumerate() {
            for (k, v) in &computed[si] {
                s.mutations.push((k.clone(), v.clone()));
            }
        }
        let read_log: ReadLog = Default::default();
        let overlay = Arc::new(overlay);
        let views2 = RefViews {
            pre: RefView::Pre(pre.clone()),
            post: RefView::Post(pre.clone(), overlay.clone(), read_log.clone()),
        };
        let p2 = self.run_pass(2, &msols, &views2, &invalid, &mut cache, trace);
        if let Some(r) = p2.unspecified {
            return RefVerdict::Unspecified(r);
        }
        // classify what the post-state reads looked at (evidence for C03)
        for (c, key, n) in read_log.lock().unwrap().iter() {
            let mut k = key.clone();
            let (mut hit, mut miss) = (false, false);
            for _ in 0..(*n).min(64) {
                match overlay.get(&(*c, k.clone())) {
                    Some(v) => {
                        hit = true;
                        if v.is_empty() {
                            trace.post_read_saw_deletion = true;
                        }
                        let declared = case.solutions.iter().any(|s| s.contract == *c && s.mutations.iter().any(|(dk, _)| *dk == k));
                        if declared {
                            trace.post_read_saw_declared = true;
                        } else {
                            trace.post_read_saw_computed = true;
                        }
                        if pre.read(c, &k, 1).ok().and_then(|mut v| v.pop()).unwrap_or_default() != *v {
                            trace.post_reads_saw_overlay = true;
                        }
                    }
                    None => miss = true,
                }
                if k.last() == Some(&i64::MAX) {
                    trace.post_read_carry = true;
                }
                match next_key(k) {
                    Some(nk) => k = nk,
                    None => break,
                }
            }
            if hit && miss {
                trace.post_read_straddles = true;
            }
            trace.post_reads += 1;
        }
        if !p2.fails.is_empty() {
            return RefVerdict::Failed {
                pass: 2,
                per_solution: p2.fails,
            };
        }
        let mut computed2 = computed.clone();
        let mut blamed = BTreeSet::new();
        self.absorb_outputs(&p2.outputs, &mut taken, &mut computed2, &mut blamed);
        if !blamed.is_empty() {
            return RefVerdict::Mutations { pass: 2, blamed };
        }
        let mut outputs = Vec::new();
        for si in 0..case.solutions.len() {
            let mut a = p1.outputs[si].clone();
            let mut b = p2.outputs[si].clone();
            a.sort();
            b.sort();
            outputs.push((a, b));
        }
        for c in computed2.iter_mut() {
            c.sort();
        }
        RefVerdict::Ok {
            gas: p1.gas + p2.gas,
            outputs,
            computed: computed2,
        }
    }

    /// Decode data outputs into mutations; record solutions whose outputs are invalid or collide.
    fn absorb_outputs(
        &self,
        outputs: &[Vec<Vec<i64>>],
        taken: &mut BTreeSet<(Addr, Vec<i64>)>,
        computed: &mut [Vec<(Vec<i64>, Vec<i64>)>],
        blamed: &mut BTreeSet<usize>,
    ) {
        // first pass: decode errors
        let mut decoded: Vec<Vec<(Vec<i64>, Vec<i64>)>> = vec![vec![]; outputs.len()];
        for (si, mems) in outputs.iter().enumerate() {
            for m in mems {
                match codec::decode_mutations_canonical(m) {
                    Some(ms) => decoded[si].extend(ms),
                    None => {
                        blamed.insert(si);
                    }
                }
            }
        }
        // collisions: with declared / previously computed slots, or among the new ones
        let mut seen: BTreeMap<(Addr, Vec<i64>), Vec<usize>> = BTreeMap::new();
        for (si, ms) in decoded.iter().enumerate() {
            for (k, _) in ms {
                seen.entry((self.case.solutions[si].contract, k.clone())).or_default().push(si);
            }
        }
        for (slot, sols) in &seen {
            if taken.contains(slot) || sols.len() > 1 {
                blamed.extend(sols.iter().copied());
            }
        }
        if blamed.is_empty() {
            for (si, ms) in decoded.into_iter().enumerate() {
                for (k, v) in ms {
                    taken.insert((self.case.solutions[si].contract, k.clone()));
                    computed[si].push((k, v));
                }
            }
        }
    }

    fn run_pass(
        &self,
        pass: u8,
        msols: &[MSolution],
        views: &RefViews,
        invalid: &BTreeMap<usize, SolFail>,
        cache: &mut [BTreeMap<u16, NodeOut>],
        trace: &mut RefTrace,
    ) -> PassResult {
        let case = self.case;
        let mut res = PassResult {
            gas: 0,
            fails: BTreeMap::new(),
            outputs: vec![vec![]; case.solutions.len()],
            unspecified: None,
        };
        for (si, s) in case.solutions.iter().enumerate() {
            if let Some(f) = invalid.get(&si) {
                res.fails.insert(si, f.clone());
                continue;
            }
            let a = self.analyses[s.pred].as_ref().unwrap();
            let pred = &case.predicates[s.pred];
            let deferred = &self.deferred[s.pred];
            let mut failed: BTreeSet<u16> = BTreeSet::new();
            let mut skipped: BTreeSet<u16> = BTreeSet::new();
            let mut unsat: BTreeSet<u16> = BTreeSet::new();
            for &x in a.topo.as_ref().unwrap() {
                let xi = x as usize;
                let in_this_pass = if pass == 1 { !deferred[xi] } else { deferred[xi] };
                if !in_this_pass {
                    continue;
                }
                // all parents must have succeeded
                if a.parents[xi].iter().any(|p| failed.contains(p) || skipped.contains(p)) {
                    skipped.insert(x);
                    continue;
                }
                let inputs: Vec<&NodeOut> = a.parents[xi].iter().map(|p| cache[si].get(p).expect("parent output present")).collect();
                trace.evaluated.push((si, x, pass));
                match exec_node(&case.programs[pred.nodes[xi].prog], &inputs, msols, si, views) {
                    Err(Some(r)) => {
                        res.unspecified = Some(r);
                        failed.insert(x);
                    }
                    Err(None) => {
                        failed.insert(x);
                    }
                    Ok((out, gas)) => {
                        res.gas += gas;
                        if a.leaf[xi] {
                            match out.stack[..] {
                                [1] => {}
                                [2] => res.outputs[si].push(out.memory.clone()),
                                _ => {
                                    unsat.insert(x);
                                }
                            }
                        }
                        cache[si].insert(x, out);
                    }
                }
            }
            if !failed.is_empty() {
                res.fails.insert(
                    si,
                    SolFail::Programs {
                        root: failed,
                        downstream: skipped,
                    },
                );
            } else if !unsat.is_empty() {
                res.fails.insert(si, SolFail::Unsatisfied(unsat));
            }
        }
        res
    }
}
