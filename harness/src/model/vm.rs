//! RefVm — independent reference interpreter (DESIGN §3.1, Appendix A).
//!
//! Written from `asm.yml` and the statements of C05, C07–C12. Shares no code with `crates/vm`.

use super::ops::MOp;
use serde::{Deserialize, Serialize};
use std::cell::Cell;

pub const S: usize = 4096;
pub const M: usize = 10240;

#[derive(Clone, Debug, PartialEq, Eq, Hash, Serialize, Deserialize)]
pub enum RSlot {
    Up { counter: i64, limit: i64, start: usize },
    Down { counter: i64, start: usize },
}

#[derive(Clone, Debug, Default, PartialEq, Eq, Hash, Serialize, Deserialize)]
pub struct MState {
    pub pc: usize,
    pub stack: Vec<i64>,
    pub memory: Vec<i64>,
    pub repeat: Vec<RSlot>,
}

#[derive(Clone, Debug, Default, PartialEq, Eq, Hash, Serialize, Deserialize)]
pub struct MSolution {
    pub contract: [u8; 32],
    pub predicate: [u8; 32],
    pub data: Vec<Vec<i64>>,
    pub mutations: Vec<(Vec<i64>, Vec<i64>)>,
}

/// State as the model sees it.
pub trait ModelState {
    fn read(&self, post: bool, contract: &[u8; 32], key: &[i64], count: usize) -> Result<Vec<Vec<i64>>, String>;
}

pub struct NoState;
impl ModelState for NoState {
    fn read(&self, _: bool, _: &[u8; 32], _: &[i64], _: usize) -> Result<Vec<Vec<i64>>, String> {
        Ok(vec![])
    }
}

pub struct Env<'a> {
    pub solutions: &'a [MSolution],
    pub index: usize,
    pub state: &'a dyn ModelState,
    pub cost: &'a dyn Fn(&MOp) -> u64,
    /// Remaining executed-op budget shared by parent and children; `OverBudget` when exhausted.
    pub steps_left: Cell<u64>,
    pub breadth_cap: i64,
    /// Number of times the cost function was consulted (parent and children, including the attempt that ran out of gas).
    pub cost_calls: Cell<u64>,
}

#[derive(Clone, Debug, PartialEq, Eq)]
pub enum ErrClass {
    OutOfGas { spent: u64, op_gas: u64 },
    /// Out of gas somewhere inside / at the join of a Compute.
    OutOfGasInCompute,
    StateRead(String),
    /// Any other error; the kind is not part of the comparison.
    Other,
    /// Error, but several root causes are possible (e.g. one child out of gas, another failing otherwise).
    Any,
}

#[derive(Clone, Copy, Debug, PartialEq, Eq)]
pub enum Stop {
    /// Program counter left the program.
    End,
    Halt,
    ComputeEnd,
}

#[derive(Clone, Debug, PartialEq, Eq)]
pub enum Event {
    Continue,
    Done(Stop),
    Failed { index: usize, class: ErrClass },
    /// Model state was advanced as in the "succeeds" alternative; an error is equally acceptable.
    EitherErrOr(Box<Event>),
    Unspec(&'static str),
    OverBudget,
    ExcludedBreadth,
}

#[derive(Clone, Debug, PartialEq, Eq)]
pub enum RunResult {
    Ok { gas: u64, stop: Stop },
    Err { index: usize, class: ErrClass },
    Unspec(&'static str),
    OverBudget,
    ExcludedBreadth,
}

enum Flow {
    Next,
    Jump(usize),
    Halt,
}

enum Simple {
    Ok(Flow),
    Err(ErrClass),
    EitherErrOr(Flow),
}

fn e<T>() -> Result<T, ErrClass> {
    Err(ErrClass::Other)
}

pub struct Machine<'a> {
    pub prog: &'a [MOp],
    pub st: MState,
    pub env: &'a Env<'a>,
    pub pmem: Option<&'a [i64]>,
    pub gas: u128,
    pub limit: u128,
    pub in_child: bool,
    /// Highest index of an executed op (None if nothing executed).
    pub max_visited: Option<usize>,
    /// Number of ops executed by this machine (children excluded).
    pub executed: u64,
    /// Number of ops executed including children.
    pub executed_total: u64,
    /// One entry per executed (top-level) Compute.
    pub compute_log: Vec<ComputeInfo>,
}

#[derive(Clone, Debug, Default, PartialEq, Eq)]
pub struct ComputeInfo {
    pub breadth: i64,
    pub distinct_end_pcs: usize,
    pub distinct_mem_sizes: usize,
    pub failing_children: usize,
    pub ok: bool,
    /// Total gas of the machine right after this Compute joined (0 unless `ok`).
    pub gas_after: u128,
}

fn pop(s: &mut Vec<i64>) -> Result<i64, ErrClass> {
    s.pop().ok_or(ErrClass::Other)
}

fn push(s: &mut Vec<i64>, w: i64) -> Result<(), ErrClass> {
    if s.len() >= S {
        return e();
    }
    s.push(w);
    Ok(())
}

fn push_all(s: &mut Vec<i64>, ws: &[i64]) -> Result<(), ErrClass> {
    if s.len() + ws.len() > S {
        return e();
    }
    s.extend_from_slice(ws);
    Ok(())
}

fn to_len(w: i64) -> Result<usize, ErrClass> {
    if w < 0 {
        e()
    } else {
        Ok(w as usize)
    }
}

fn bool_word(w: i64) -> Result<bool, ErrClass> {
    match w {
        0 => Ok(false),
        1 => Ok(true),
        _ => e(),
    }
}

/// Pop `n` words (top n) returning them in stack order.
fn pop_n(s: &mut Vec<i64>, n: usize) -> Result<Vec<i64>, ErrClass> {
    if n > s.len() {
        return e();
    }
    Ok(s.split_off(s.len() - n))
}

pub fn words_to_bytes(ws: &[i64]) -> Vec<u8> {
    let mut out = Vec::with_capacity(ws.len() * 8);
    for w in ws {
        let u = *w as u64;
        for i in (0..8).rev() {
            out.push((u >> (8 * i)) as u8);
        }
    }
    out
}

pub fn bytes_to_words(bs: &[u8]) -> Vec<i64> {
    assert!(bs.len() % 8 == 0);
    bs.chunks(8)
        .map(|c| {
            let mut u = 0u64;
            for b in c {
                u = (u << 8) | *b as u64;
            }
            u as i64
        })
        .collect()
}

/// Pop a byte string: `[data words.., byte_len]`.
fn pop_bytes(s: &mut Vec<i64>) -> Result<Vec<u8>, ErrClass> {
    let n = to_len(pop(s)?)?;
    let nwords = n / 8 + usize::from(n % 8 != 0);
    let ws = pop_n(s, nwords)?;
    let mut b = words_to_bytes(&ws);
    b.truncate(n);
    Ok(b)
}

fn parse_set(ws: &[i64]) -> Result<std::collections::BTreeSet<Vec<i64>>, ErrClass> {
    let mut out = std::collections::BTreeSet::new();
    let mut rest = ws;
    while let Some((len, r)) = rest.split_last() {
        let len = to_len(*len)?;
        if len > r.len() {
            return e();
        }
        let (r2, elem) = r.split_at(r.len() - len);
        out.insert(elem.to_vec());
        rest = r2;
    }
    Ok(out)
}

pub fn predicate_exists_hash(sol: &MSolution) -> [u8; 32] {
    let mut words: Vec<i64> = Vec::new();
    for slot in &sol.data {
        words.push(slot.len() as i64);
        words.extend_from_slice(slot);
    }
    words.extend(bytes_to_words(&sol.contract));
    words.extend(bytes_to_words(&sol.predicate));
    essential_hash::hash_bytes(&words_to_bytes(&words))
}

impl<'a> Machine<'a> {
    pub fn new(prog: &'a [MOp], st: MState, env: &'a Env<'a>, limit: u64) -> Self {
        Machine {
            prog,
            st,
            env,
            pmem: None,
            gas: 0,
            limit: limit as u128,
            in_child: false,
            max_visited: None,
            executed: 0,
            executed_total: 0,
            compute_log: Vec::new(),
        }
    }

    /// Run to completion.
    pub fn run(&mut self) -> RunResult {
        loop {
            match self.step() {
                Event::Continue => {}
                Event::Done(stop) => {
                    return RunResult::Ok {
                        gas: self.gas as u64,
                        stop,
                    }
                }
                Event::Failed { index, class } => return RunResult::Err { index, class },
                Event::EitherErrOr(_) => return RunResult::Unspec("two-valued expectation inside a whole-program run"),
                Event::Unspec(r) => return RunResult::Unspec(r),
                Event::OverBudget => return RunResult::OverBudget,
                Event::ExcludedBreadth => return RunResult::ExcludedBreadth,
            }
        }
    }

    /// Peek: the op that the next `step` executes.
    pub fn next_op(&self) -> Option<MOp> {
        self.prog.get(self.st.pc).copied()
    }

    pub fn step(&mut self) -> Event {
        let pc = self.st.pc;
        let Some(op) = self.prog.get(pc).copied() else {
            return Event::Done(Stop::End);
        };
        if self.env.steps_left.get() == 0 {
            return Event::OverBudget;
        }
        self.env.steps_left.set(self.env.steps_left.get() - 1);
        self.env.cost_calls.set(self.env.cost_calls.get() + 1);
        let c = (self.env.cost)(&op) as u128;
        if self.gas + c > self.limit || self.gas + c > u64::MAX as u128 {
            return Event::Failed {
                index: pc,
                class: ErrClass::OutOfGas {
                    spent: self.gas as u64,
                    op_gas: c as u64,
                },
            };
        }
        self.gas += c;
        self.executed += 1;
        self.executed_total += 1;
        self.max_visited = Some(self.max_visited.map_or(pc, |m| m.max(pc)));
        match op {
            MOp::COM => self.compute(pc),
            MOp::COME => {
                if self.in_child {
                    self.st.pc = pc + 1;
                    Event::Done(Stop::ComputeEnd)
                } else {
                    Event::Unspec("ComputeEnd outside a compute context")
                }
            }
            _ => match self.simple(op, pc) {
                Simple::Ok(f) => self.flow(f, pc),
                Simple::Err(class) => Event::Failed { index: pc, class },
                Simple::EitherErrOr(f) => Event::EitherErrOr(Box::new(self.flow(f, pc))),
            },
        }
    }

    fn flow(&mut self, f: Flow, pc: usize) -> Event {
        match f {
            Flow::Next => {
                self.st.pc = pc + 1;
                Event::Continue
            }
            Flow::Jump(t) => {
                self.st.pc = t;
                Event::Continue
            }
            Flow::Halt => Event::Done(Stop::Halt),
        }
    }

    fn compute(&mut self, pc: usize) -> Event {
        let Some(breadth) = self.st.stack.pop() else {
            return Event::Failed { index: pc, class: ErrClass::Other };
        };
        if breadth < 1 || self.in_child {
            return Event::Failed { index: pc, class: ErrClass::Other };
        }
        if breadth > self.env.breadth_cap {
            return Event::ExcludedBreadth;
        }
        let child_limit = self.limit - self.gas;
        let parent_mem = self.st.memory.clone();
        let mut mems: Vec<Vec<i64>> = Vec::new();
        let mut gas_sum: u128 = 0;
        let mut max_pc = pc;
        let mut gas_fail = false;
        let mut other_fail = false;
        let mut unspec: Option<&'static str> = None;
        let mut end_pcs: Vec<usize> = Vec::new();
        let mut failing = 0usize;
        for i in 0..breadth {
            let mut stack = self.st.stack.clone();
            stack.push(i); // always fits: the breadth word was just popped
            let mut child = Machine {
                prog: self.prog,
                st: MState {
                    pc: pc + 1,
                    stack,
                    memory: Vec::new(),
                    repeat: self.st.repeat.clone(),
                },
                env: self.env,
                pmem: Some(&parent_mem),
                gas: 0,
                limit: child_limit,
                in_child: true,
                max_visited: None,
                executed: 0,
                executed_total: 0,
                compute_log: Vec::new(),
            };
            let r = child.run();
            self.executed_total += child.executed_total;
            match r {
                RunResult::Ok { gas, .. } => {
                    gas_sum += gas as u128;
                    let f = child.st.pc;
                    if let Some(mv) = child.max_visited {
                        if f < mv {
                            unspec = Some("compute child ended behind a position it had visited");
                        }
                    }
                    max_pc = max_pc.max(f);
                    end_pcs.push(f);
                    mems.push(child.st.memory);
                }
                RunResult::Err { class, .. } => {
                    failing += 1;
                    match class {
                        ErrClass::OutOfGas { .. } | ErrClass::OutOfGasInCompute => gas_fail = true,
                        _ => other_fail = true,
                    }
                }
                RunResult::Unspec(r) => unspec = Some(r),
                RunResult::OverBudget => return Event::OverBudget,
                RunResult::ExcludedBreadth => return Event::ExcludedBreadth,
            }
        }
        {
            let mut e = end_pcs.clone();
            e.sort();
            e.dedup();
            let mut ms: Vec<usize> = mems.iter().map(|m| m.len()).collect();
            ms.sort();
            ms.dedup();
            self.compute_log.push(ComputeInfo {
                breadth,
                distinct_end_pcs: e.len(),
                distinct_mem_sizes: ms.len(),
                failing_children: failing,
                ok: false,
                gas_after: 0,
            });
        }
        if other_fail || gas_fail {
            // A failing child fails the parent whatever else is unspecified.
            let class = match (gas_fail, other_fail) {
                (true, false) => ErrClass::OutOfGasInCompute,
                (false, true) => ErrClass::Other,
                _ => ErrClass::Any,
            };
            // If the children's total also exceeds the budget the failure may be reported as out-of-gas.
            let class = if gas_sum > child_limit && class == ErrClass::Other { ErrClass::Any } else { class };
            return Event::Failed { index: pc, class };
        }
        if let Some(r) = unspec {
            return Event::Unspec(r);
        }
        let total_mem: usize = mems.iter().map(|m| m.len()).sum();
        let gas_over = gas_sum > child_limit;
        let mem_over = self.st.memory.len() + total_mem > M;
        if gas_over || mem_over {
            let class = match (gas_over, mem_over) {
                (true, false) => ErrClass::OutOfGasInCompute,
                (false, true) => ErrClass::Other,
                _ => ErrClass::Any,
            };
            return Event::Failed { index: pc, class };
        }
        for m in mems {
            self.st.memory.extend_from_slice(&m);
        }
        self.gas += gas_sum;
        self.st.pc = max_pc;
        let gas_now = self.gas;
        if let Some(l) = self.compute_log.last_mut() {
            l.ok = true;
            l.gas_after = gas_now;
        }
        Event::Continue
    }

    fn simple(&mut self, op: MOp, pc: usize) -> Simple {
        match self.simple_inner(op, pc) {
            Ok(s) => s,
            Err(class) => Simple::Err(class),
        }
    }

    fn simple_inner(&mut self, op: MOp, pc: usize) -> Result<Simple, ErrClass> {
        let env = self.env;
        let pmem = self.pmem;
        let st = &mut self.st;
        let s = &mut st.stack;
        let next = Ok(Simple::Ok(Flow::Next));
        match op {
            // ---------------- Stack ----------------
            MOp::PUSH(w) => push(s, w)?,
            MOp::POP => {
                pop(s)?;
            }
            MOp::DUP => {
                let a = pop(s)?;
                push(s, a)?;
                push(s, a)?;
            }
            MOp::DUPF => {
                let i = to_len(pop(s)?)?;
                if i >= s.len() {
                    return e();
                }
                let w = s[s.len() - 1 - i];
                push(s, w)?;
            }
            MOp::SWAP => {
                let b = pop(s)?;
                let a = pop(s)?;
                push(s, b)?;
                push(s, a)?;
            }
            MOp::SWAPI => {
                let i = pop(s)?;
                if s.is_empty() {
                    return e();
                }
                let i = to_len(i)?;
                let top = s.len() - 1;
                if i > top {
                    return e();
                }
                s.swap(top, top - i);
            }
            MOp::SEL => {
                let c = pop(s)?;
                let b = pop(s)?;
                let a = pop(s)?;
                let c = bool_word(c)?;
                push(s, if c { b } else { a })?;
            }
            MOp::SLTR => {
                let c = bool_word(pop(s)?)?;
                let n = to_len(pop(s)?)?;
                if n != 0 {
                    let two = n.checked_mul(2).ok_or(ErrClass::Other)?;
                    if two > s.len() {
                        return e();
                    }
                    let top = pop_n(s, n)?;
                    let below = pop_n(s, n)?;
                    s.extend_from_slice(if c { &top } else { &below });
                }
            }
            MOp::REP => {
                let up = pop(s)?;
                let n = pop(s)?;
                let up = bool_word(up)?;
                if st.repeat.len() >= S {
                    return e();
                }
                st.repeat.push(if up {
                    RSlot::Up { counter: 0, limit: n, start: pc + 1 }
                } else {
                    RSlot::Down { counter: n, start: pc + 1 }
                });
            }
            MOp::REPE => {
                let Some(slot) = st.repeat.last_mut() else { return e() };
                match slot {
                    RSlot::Up { counter, limit, start } => {
                        // the body has run for counter = 0..=counter; it runs max(limit,1) times in total
                        if (*counter as i128) >= (*limit as i128) - 1 {
                            st.repeat.pop();
                        } else {
                            *counter += 1;
                            let t = *start;
                            return Ok(Simple::Ok(Flow::Jump(t)));
                        }
                    }
                    RSlot::Down { counter, start } => {
                        if *counter <= 1 {
                            st.repeat.pop();
                        } else {
                            *counter -= 1;
                            let t = *start;
                            return Ok(Simple::Ok(Flow::Jump(t)));
                        }
                    }
                }
            }
            MOp::RES => {
                let n = to_len(pop(s)?)?;
                let start = s.len();
                if start.checked_add(n).ok_or(ErrClass::Other)? + 1 > S {
                    return e();
                }
                s.resize(start + n, 0);
                s.push(start as i64);
            }
            MOp::LODS => {
                let i = to_len(pop(s)?)?;
                if i >= s.len() {
                    return e();
                }
                let w = s[i];
                push(s, w)?;
            }
            MOp::STOS => {
                let i = pop(s)?;
                let v = pop(s)?;
                let i = to_len(i)?;
                if i >= s.len() {
                    return e();
                }
                s[i] = v;
            }
            MOp::DROP => {
                let n = to_len(pop(s)?)?;
                pop_n(s, n)?;
            }
            // ---------------- Pred ----------------
            MOp::EQ | MOp::GT | MOp::LT | MOp::GTE | MOp::LTE | MOp::AND | MOp::OR | MOp::BAND | MOp::BOR => {
                let b = pop(s)?;
                let a = pop(s)?;
                let r = match op {
                    MOp::EQ => (a == b) as i64,
                    MOp::GT => (a > b) as i64,
                    MOp::LT => (a < b) as i64,
                    MOp::GTE => (a >= b) as i64,
                    MOp::LTE => (a <= b) as i64,
                    MOp::AND => (a != 0 && b != 0) as i64,
                    MOp::OR => (a != 0 || b != 0) as i64,
                    MOp::BAND => a & b,
                    MOp::BOR => a | b,
                    _ => unreachable!(),
                };
                push(s, r)?;
            }
            MOp::NOT => {
                let a = pop(s)?;
                push(s, (a == 0) as i64)?;
            }
            MOp::EQRA => {
                let n = pop(s)?;
                if n == 0 {
                    push(s, 1)?;
                } else {
                    let n = to_len(n)?;
                    let two = n.checked_mul(2).ok_or(ErrClass::Other)?;
                    if two > s.len() {
                        return e();
                    }
                    let b = pop_n(s, n)?;
                    let a = pop_n(s, n)?;
                    push(s, (a == b) as i64)?;
                }
            }
            MOp::EQST => {
                let nr = to_len(pop(s)?)?;
                let rhs = pop_n(s, nr)?;
                let nl = to_len(pop(s)?)?;
                let lhs = pop_n(s, nl)?;
                let l = parse_set(&lhs)?;
                let r = parse_set(&rhs)?;
                push(s, (l == r) as i64)?;
            }
            // ---------------- Alu ----------------
            MOp::ADD | MOp::SUB | MOp::MUL => {
                let b = pop(s)? as i128;
                let a = pop(s)? as i128;
                let r = match op {
                    MOp::ADD => a + b,
                    MOp::SUB => a - b,
                    _ => a * b,
                };
                if r < i64::MIN as i128 || r > i64::MAX as i128 {
                    return e();
                }
                push(s, r as i64)?;
            }
            MOp::DIV | MOp::MOD => {
                let b = pop(s)?;
                let a = pop(s)?;
                if b == 0 {
                    return e();
                }
                let (a, b) = (a as i128, b as i128);
                // truncating division
                let q = a / b;
                let r = a - q * b;
                if op == MOp::DIV {
                    if q > i64::MAX as i128 {
                        return e();
                    }
                    push(s, q as i64)?;
                } else {
                    push(s, r as i64)?;
                    if a == i64::MIN as i128 && b == -1 {
                        // mathematically 0; refusing it is accepted too
                        return Ok(Simple::EitherErrOr(Flow::Next));
                    }
                }
            }
            MOp::SHL | MOp::SHR | MOp::SHRI => {
                let b = pop(s)?;
                let a = pop(s)?;
                if !(0..=63).contains(&b) {
                    return e();
                }
                let r = match op {
                    MOp::SHL => ((a as u64) << b) as i64,
                    MOp::SHR => ((a as u64) >> b) as i64,
                    _ => {
                        // arithmetic: floor division by 2^b
                        let d = 1i128 << b;
                        (a as i128).div_euclid(d) as i64
                    }
                };
                push(s, r)?;
            }
            // ---------------- Access ----------------
            MOp::THIS | MOp::THISC => {
                let sol = &env.solutions[env.index];
                let bytes = if op == MOp::THIS { &sol.predicate } else { &sol.contract };
                push_all(s, &bytes_to_words(bytes))?;
            }
            MOp::REPC => {
                let c = match st.repeat.last() {
                    Some(RSlot::Up { counter, .. }) | Some(RSlot::Down { counter, .. }) => *counter,
                    None => return e(),
                };
                push(s, c)?;
            }
            MOp::DATA => {
                let n = pop(s)?;
                let v = pop(s)?;
                let slot = pop(s)?;
                let (n, v, slot) = (to_len(n)?, to_len(v)?, to_len(slot)?);
                let data = &env.solutions[env.index].data;
                let Some(sl) = data.get(slot) else { return e() };
                let end = v.checked_add(n).ok_or(ErrClass::Other)?;
                if end > sl.len() {
                    return e();
                }
                push_all(s, &sl[v..end])?;
            }
            MOp::DLEN => {
                let slot = to_len(pop(s)?)?;
                let data = &env.solutions[env.index].data;
                let Some(sl) = data.get(slot) else { return e() };
                push(s, sl.len() as i64)?;
            }
            MOp::DSLT => {
                push(s, env.solutions[env.index].data.len() as i64)?;
            }
            MOp::PEX => {
                let h = pop_n(s, 4)?;
                let hb = words_to_bytes(&h);
                let found = env.solutions.iter().any(|sol| predicate_exists_hash(sol)[..] == hb[..]);
                push(s, found as i64)?;
            }
            // ---------------- Crypto ----------------
            MOp::SHA2 => {
                let data = pop_bytes(s)?;
                let h = essential_hash::hash_bytes(&data);
                push_all(s, &bytes_to_words(&h))?;
            }
            MOp::VRFYED => {
                let key = pop_n(s, 4)?;
                let sig = pop_n(s, 8)?;
                let data = pop_bytes(s)?;
                let kb: [u8; 32] = words_to_bytes(&key).try_into().unwrap();
                let sb: [u8; 64] = words_to_bytes(&sig).try_into().unwrap();
                use ed25519_dalek::Verifier;
                match ed25519_dalek::VerifyingKey::from_bytes(&kb) {
                    Ok(vk) => {
                        let ok = vk.verify(&data, &ed25519_dalek::Signature::from_bytes(&sb)).is_ok();
                        push(s, ok as i64)?;
                    }
                    Err(_) => {
                        push(s, 0)?;
                        return Ok(Simple::EitherErrOr(Flow::Next));
                    }
                }
            }
            MOp::RSECP => {
                let id = pop(s)?;
                let sig = pop_n(s, 8)?;
                let digest = pop_n(s, 4)?;
                let sb: [u8; 64] = words_to_bytes(&sig).try_into().unwrap();
                let db: [u8; 32] = words_to_bytes(&digest).try_into().unwrap();
                // Malformed encodings (recovery id outside 0..=3, r or s not below the group order) are errors, exactly
                // as the sign crate answers for the same bytes; only well-formed signatures from which no key can be
                // recovered give five zero words.
                if !(0..=3).contains(&id) {
                    return e();
                }
                use essential_sign::secp256k1::ecdsa::{RecoverableSignature, RecoveryId};
                let rid = RecoveryId::try_from(id as i32).map_err(|_| ErrClass::Other)?;
                if RecoverableSignature::from_compact(&sb, rid).is_err() {
                    return e();
                }
                let sig = essential_types::Signature(sb, id as u8);
                match essential_sign::recover_hash(db, &sig) {
                    Ok(pk) => push_all(s, &essential_sign::encode::public_key(&pk))?,
                    Err(_) => push_all(s, &[0; 5])?,
                }
            }
            // ---------------- TotalControlFlow ----------------
            MOp::HLT => return Ok(Simple::Ok(Flow::Halt)),
            MOp::HLTIF => {
                if bool_word(pop(s)?)? {
                    return Ok(Simple::Ok(Flow::Halt));
                }
            }
            MOp::JMPIF => {
                let c = pop(s)?;
                let d = pop(s)?;
                let c = bool_word(c)?;
                if c {
                    if d == 0 {
                        return e();
                    }
                    let t = pc as i128 + d as i128;
                    if t < 0 || t > usize::MAX as i128 {
                        return e();
                    }
                    return Ok(Simple::Ok(Flow::Jump(t as usize)));
                }
                // condition 0: no jump, whatever the distance (a zero distance only matters for a taken jump)
            }
            MOp::PNCIF => {
                if bool_word(pop(s)?)? {
                    return e();
                }
            }
            // ---------------- Memory ----------------
            MOp::ALOC => {
                let n = to_len(pop(s)?)?;
                let old = st.memory.len();
                if old.checked_add(n).ok_or(ErrClass::Other)? > M {
                    return e();
                }
                st.memory.resize(old + n, 0);
                push(s, old as i64)?;
            }
            MOp::FREE => {
                let n = to_len(pop(s)?)?;
                if n > st.memory.len() {
                    return e();
                }
                st.memory.truncate(n);
            }
            MOp::LOD => {
                let i = to_len(pop(s)?)?;
                let Some(w) = st.memory.get(i).copied() else { return e() };
                push(s, w)?;
            }
            MOp::STO => {
                let i = pop(s)?;
                let v = pop(s)?;
                let i = to_len(i)?;
                let Some(slot) = st.memory.get_mut(i) else { return e() };
                *slot = v;
            }
            MOp::LODR => {
                let n = pop(s)?;
                let i = pop(s)?;
                let (n, i) = (to_len(n)?, to_len(i)?);
                let end = i.checked_add(n).ok_or(ErrClass::Other)?;
                if end > st.memory.len() {
                    return e();
                }
                let ws = st.memory[i..end].to_vec();
                push_all(s, &ws)?;
            }
            MOp::STOR => {
                let i = pop(s)?;
                let n = to_len(pop(s)?)?;
                let ws = pop_n(s, n)?;
                let i = to_len(i)?;
                let end = i.checked_add(n).ok_or(ErrClass::Other)?;
                if end > st.memory.len() {
                    return e();
                }
                st.memory[i..end].copy_from_slice(&ws);
            }
            MOp::LODP => {
                let Some(pm) = pmem else { return e() };
                let i = to_len(pop(s)?)?;
                let Some(w) = pm.get(i).copied() else { return e() };
                push(s, w)?;
            }
            MOp::LODPR => {
                let Some(pm) = pmem else { return e() };
                let n = pop(s)?;
                let i = pop(s)?;
                let (n, i) = (to_len(n)?, to_len(i)?);
                let end = i.checked_add(n).ok_or(ErrClass::Other)?;
                if end > pm.len() {
                    return e();
                }
                push_all(s, &pm[i..end])?;
            }
            // ---------------- StateRead ----------------
            MOp::KRNG | MOp::KREX | MOp::PKRNG | MOp::PKREX => {
                let addr = to_len(pop(s)?)?;
                let count = to_len(pop(s)?)?;
                let klen = to_len(pop(s)?)?;
                let key = pop_n(s, klen)?;
                let ext = matches!(op, MOp::KREX | MOp::PKREX);
                let post = matches!(op, MOp::PKRNG | MOp::PKREX);
                let contract: [u8; 32] = if ext {
                    let a = pop_n(s, 4)?;
                    words_to_bytes(&a).try_into().unwrap()
                } else {
                    env.solutions[env.index].contract
                };
                let values = env
                    .state
                    .read(post, &contract, &key, count)
                    .map_err(ErrClass::StateRead)?;
                let k = values.len();
                let mlen = st.memory.len();
                // pair table [addr, addr+2k), values from addr+2k
                let table_end = addr.checked_add(2 * k).ok_or(ErrClass::Other)?;
                let mut a = table_end;
                // Everything must fit the *current* memory.
                if k > 0 && table_end > mlen {
                    return e();
                }
                let mut writes: Vec<(usize, Vec<i64>)> = Vec::new();
                for (i, v) in values.iter().enumerate() {
                    let end = a.checked_add(v.len()).ok_or(ErrClass::Other)?;
                    if end > mlen {
                        return e();
                    }
                    writes.push((addr + 2 * i, vec![a as i64, v.len() as i64]));
                    writes.push((a, v.clone()));
                    a = end;
                }
                for (at, ws) in writes {
                    st.memory[at..at + ws.len()].copy_from_slice(&ws);
                }
            }
            MOp::COM | MOp::COME => unreachable!("handled by the run loop"),
        }
        next
    }
}

/// Convenience: run a program from a state with cost 1 and no limit.
pub fn run_simple(
    prog: &[MOp],
    st: MState,
    solutions: &[MSolution],
    index: usize,
    state: &dyn ModelState,
    budget: u64,
    breadth_cap: i64,
) -> (RunResult, MState, u64) {
    let cost = |_: &MOp| 1u64;
    let env = Env {
        solutions,
        index,
        state,
        cost: &cost,
        steps_left: Cell::new(budget),
        breadth_cap,
        cost_calls: Cell::new(0),
    };
    let mut m = Machine::new(prog, st, &env, u64::MAX);
    let r = m.run();
    let total = m.executed_total;
    (r, m.st, total)
}
