pub mod asm;
pub mod ops;
pub mod vm;
pub mod codec;
pub mod graph;
