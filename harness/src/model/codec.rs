//! RefCodec — independently written codecs (DESIGN §3.5): mutation words, predicate bytes
//! (documented table in `predicate/encode.rs`), a postcard subset for `Solution`, hex helpers.

use super::graph::PredSpec;

pub type Mutation = (Vec<i64>, Vec<i64>);

pub fn encode_mutation(m: &Mutation, out: &mut Vec<i64>) {
    out.push(m.0.len() as i64);
    out.extend_from_slice(&m.0);
    out.push(m.1.len() as i64);
    out.extend_from_slice(&m.1);
}

pub fn encode_mutations(ms: &[Mutation]) -> Vec<i64> {
    let mut out = vec![ms.len() as i64];
    for m in ms {
        encode_mutation(m, &mut out);
    }
    out
}

/// Strict decoder of one mutation from the start of `ws`: returns the mutation and the words consumed.
pub fn decode_mutation_prefix(ws: &[i64]) -> Option<(Mutation, usize)> {
    let klen = *ws.first()?;
    if klen < 0 {
        return None;
    }
    let klen = klen as usize;
    let key = ws.get(1..1usize.checked_add(klen)?)?.to_vec();
    let vlen = *ws.get(1 + klen)?;
    if vlen < 0 {
        return None;
    }
    let vlen = vlen as usize;
    let vstart = 2 + klen;
    let value = ws.get(vstart..vstart.checked_add(vlen)?)?.to_vec();
    Some(((key, value), vstart + vlen))
}

/// Canonical list decoding: `[n, m_1, …, m_n]` and nothing else.
pub fn decode_mutations_canonical(ws: &[i64]) -> Option<Vec<Mutation>> {
    let n = *ws.first()?;
    if n < 0 {
        return None;
    }
    let mut out = Vec::new();
    let mut i = 1usize;
    for _ in 0..n {
        let (m, used) = decode_mutation_prefix(ws.get(i..)?)?;
        out.push(m);
        i += used;
    }
    if i != ws.len() {
        return None;
    }
    Some(out)
}

/// Is this word string a canonical mutation list, or unambiguously invalid for *every* reasonable decoder
/// (empty, negative count, a negative length or a length running past the end while walking from word 1)?
/// Returns Some(true) canonical, Some(false) unambiguously invalid, None = ambiguous (count disagrees
/// with the number of well-formed mutations).
pub fn mutation_list_class(ws: &[i64]) -> Option<bool> {
    if decode_mutations_canonical(ws).is_some() {
        return Some(true);
    }
    let Some(&n) = ws.first() else { return Some(false) };
    if n < 0 {
        return Some(false);
    }
    // Walk all mutations greedily from word 1; any malformed one makes every decoder fail,
    // provided a count-honouring decoder would also reach it.
    let mut i = 1usize;
    let mut k = 0i64;
    while i < ws.len() {
        match decode_mutation_prefix(&ws[i..]) {
            Some((_, used)) => {
                i += used;
                k += 1;
            }
            None => {
                // malformed mutation number k (0-based): a decoder honouring the count reaches it iff k < n
                return if k < n { Some(false) } else { None };
            }
        }
    }
    // all well-formed but the count differs
    if k != n {
        None
    } else {
        Some(true)
    }
}

// ---------------------------------------------------------------- predicate bytes

/// Documented layout: u16 BE node count, nodes (u16 BE edge_start ++ 32 address bytes), u16 BE edge count, edges (u16 BE).
pub fn encode_predicate(nodes: &[(u16, [u8; 32])], edges: &[u16]) -> Vec<u8> {
    let mut out = Vec::with_capacity(4 + nodes.len() * 34 + edges.len() * 2);
    out.push((nodes.len() >> 8) as u8);
    out.push(nodes.len() as u8);
    for (es, addr) in nodes {
        out.push((es >> 8) as u8);
        out.push(*es as u8);
        out.extend_from_slice(addr);
    }
    out.push((edges.len() >> 8) as u8);
    out.push(edges.len() as u8);
    for e in edges {
        out.push((e >> 8) as u8);
        out.push(*e as u8);
    }
    out
}

/// Strict prefix decoder: the predicate and the number of bytes it occupies.
pub fn decode_predicate_prefix(b: &[u8]) -> Option<(Vec<(u16, [u8; 32])>, Vec<u16>, usize)> {
    let be = |i: usize| -> Option<u16> { Some(((*b.get(i)? as u16) << 8) | *b.get(i + 1)? as u16) };
    let n = be(0)? as usize;
    let mut nodes = Vec::with_capacity(n.min(2000));
    let mut i = 2;
    for _ in 0..n {
        let es = be(i)?;
        let addr: [u8; 32] = b.get(i + 2..i + 34)?.try_into().ok()?;
        nodes.push((es, addr));
        i += 34;
    }
    let m = be(i)? as usize;
    i += 2;
    let mut edges = Vec::with_capacity(m.min(2000));
    for _ in 0..m {
        edges.push(be(i)?);
        i += 2;
    }
    Some((nodes, edges, i))
}

pub fn pred_spec_nodes(p: &PredSpec, prog_addr: &[[u8; 32]]) -> Vec<(u16, [u8; 32])> {
    p.nodes.iter().map(|n| (n.edge_start, prog_addr[n.prog])).collect()
}

// ---------------------------------------------------------------- postcard subset

pub fn varint_u(mut v: u64, out: &mut Vec<u8>) {
    loop {
        let b = (v & 0x7f) as u8;
        v >>= 7;
        if v == 0 {
            out.push(b);
            break;
        } else {
            out.push(b | 0x80);
        }
    }
}

pub fn varint_i(v: i64, out: &mut Vec<u8>) {
    // zig-zag
    let z = ((v << 1) ^ (v >> 63)) as u64;
    varint_u(z, out);
}

fn pc_words(ws: &[i64], out: &mut Vec<u8>) {
    varint_u(ws.len() as u64, out);
    for w in ws {
        varint_i(*w, out);
    }
}

fn pc_bytes32(b: &[u8; 32], out: &mut Vec<u8>) {
    // binary serde of hash::serialize: a byte slice = length prefix + bytes
    varint_u(32, out);
    out.extend_from_slice(b);
}

/// postcard(Solution): predicate_to_solve{contract, predicate}, predicate_data: Vec<Vec<i64>>, state_mutations: Vec<{key,value}>
pub fn postcard_solution(contract: &[u8; 32], predicate: &[u8; 32], data: &[Vec<i64>], mutations: &[Mutation]) -> Vec<u8> {
    let mut out = Vec::new();
    pc_bytes32(contract, &mut out);
    pc_bytes32(predicate, &mut out);
    varint_u(data.len() as u64, &mut out);
    for d in data {
        pc_words(d, &mut out);
    }
    varint_u(mutations.len() as u64, &mut out);
    for (k, v) in mutations {
        pc_words(k, &mut out);
        pc_words(v, &mut out);
    }
    out
}

pub struct Reader<'a> {
    pub b: &'a [u8],
    pub i: usize,
}

impl<'a> Reader<'a> {
    pub fn varint_u(&mut self) -> Option<u64> {
        let mut v: u64 = 0;
        let mut shift = 0;
        loop {
            let byte = *self.b.get(self.i)?;
            self.i += 1;
            if shift >= 64 {
                return None;
            }
            v |= ((byte & 0x7f) as u64) << shift;
            if byte & 0x80 == 0 {
                return Some(v);
            }
            shift += 7;
        }
    }
    pub fn varint_i(&mut self) -> Option<i64> {
        let z = self.varint_u()?;
        Some(((z >> 1) as i64) ^ -((z & 1) as i64))
    }
    pub fn words(&mut self) -> Option<Vec<i64>> {
        let n = self.varint_u()? as usize;
        let mut v = Vec::new();
        for _ in 0..n {
            v.push(self.varint_i()?);
        }
        Some(v)
    }
    pub fn bytes32(&mut self) -> Option<[u8; 32]> {
        if self.varint_u()? != 32 {
            return None;
        }
        let s = self.b.get(self.i..self.i + 32)?;
        self.i += 32;
        s.try_into().ok()
    }
}

/// Inverse of `postcard_solution` (injectivity witness).
#[allow(clippy::type_complexity)]
pub fn unpostcard_solution(b: &[u8]) -> Option<([u8; 32], [u8; 32], Vec<Vec<i64>>, Vec<Mutation>)> {
    let mut r = Reader { b, i: 0 };
    let c = r.bytes32()?;
    let p = r.bytes32()?;
    let nd = r.varint_u()? as usize;
    let mut data = Vec::new();
    for _ in 0..nd {
        data.push(r.words()?);
    }
    let nm = r.varint_u()? as usize;
    let mut ms = Vec::new();
    for _ in 0..nm {
        let k = r.words()?;
        let v = r.words()?;
        ms.push((k, v));
    }
    if r.i != b.len() {
        return None;
    }
    Some((c, p, data, ms))
}

pub fn hex_upper(b: &[u8]) -> String {
    let mut s = String::with_capacity(b.len() * 2);
    for x in b {
        s.push_str(&format!("{x:02X}"));
    }
    s
}

pub fn hex_lower(b: &[u8]) -> String {
    let mut s = String::with_capacity(b.len() * 2);
    for x in b {
        s.push_str(&format!("{x:02x}"));
    }
    s
}

pub fn sha256(b: &[u8]) -> [u8; 32] {
    use sha2::Digest;
    sha2::Sha256::digest(b).into()
}
