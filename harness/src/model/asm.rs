//! RefAsm: independent bytecode encoder/decoder built from the frozen opcode table (ops.rs),
//! and the run-time reader of the current `asm.yml` (SpecTable).

use super::ops::{MOp, TABLE};

#[derive(Clone, Debug, PartialEq, Eq)]
pub enum DecErr {
    /// Invalid opcode byte at byte offset.
    InvalidOpcode(u8, usize),
    /// Not enough immediate bytes for the op starting at byte offset.
    NotEnoughBytes(usize),
}

pub fn encode_op(op: &MOp, out: &mut Vec<u8>) {
    out.push(op.opcode());
    if let MOp::PUSH(w) = op {
        // 8 big-endian bytes, written without the conversion helpers under test.
        let u = *w as u64;
        for i in (0..8).rev() {
            out.push(((u >> (8 * i)) & 0xff) as u8);
        }
    }
}

pub fn encode(ops: &[MOp]) -> Vec<u8> {
    let mut out = Vec::with_capacity(ops.len() * 2);
    for op in ops {
        encode_op(op, &mut out);
    }
    out
}

/// Decode, returning the ops and the byte offset of each op.
pub fn decode(bytes: &[u8]) -> Result<(Vec<MOp>, Vec<usize>), DecErr> {
    let mut ops = Vec::new();
    let mut offs = Vec::new();
    let mut i = 0usize;
    while i < bytes.len() {
        let b = bytes[i];
        let Some(op) = MOp::from_opcode(b) else {
            return Err(DecErr::InvalidOpcode(b, i));
        };
        let nargs = TABLE[op.index()].4;
        if i + 1 + nargs > bytes.len() {
            return Err(DecErr::NotEnoughBytes(i));
        }
        let op = if nargs == 8 {
            let mut u: u64 = 0;
            for k in 0..8 {
                u = (u << 8) | bytes[i + 1 + k] as u64;
            }
            MOp::PUSH(u as i64)
        } else {
            op
        };
        offs.push(i);
        ops.push(op);
        i += 1 + nargs;
    }
    Ok((ops, offs))
}

/// One row of the specification: (group, name, opcode, short, immediate bytes).
pub type SpecRow = (String, String, u8, String, usize);

/// Read the *current* asm.yml with a small independent walker (a mapping with an `opcode` key is an op).
pub fn spec_table_from_yaml(path: &str) -> Result<Vec<SpecRow>, String> {
    let text = std::fs::read_to_string(path).map_err(|e| format!("{path}: {e}"))?;
    let v: serde_yaml::Value = serde_yaml::from_str(&text).map_err(|e| e.to_string())?;
    let mut rows = Vec::new();
    fn walk(node: &serde_yaml::Value, group: &str, rows: &mut Vec<SpecRow>) -> Result<(), String> {
        let Some(map) = node.as_mapping() else { return Ok(()) };
        for (k, val) in map {
            let name = k.as_str().unwrap_or("").to_string();
            let Some(m) = val.as_mapping() else { continue };
            if let Some(opc) = m.get(serde_yaml::Value::from("opcode")) {
                let opcode = opc.as_u64().ok_or("opcode not an integer")? as u8;
                let short = m
                    .get(serde_yaml::Value::from("short"))
                    .and_then(|s| s.as_str())
                    .map(|s| s.to_string())
                    .unwrap_or_else(|| name.to_uppercase());
                let args = m
                    .get(serde_yaml::Value::from("num_arg_bytes"))
                    .and_then(|s| s.as_u64())
                    .unwrap_or(0) as usize;
                rows.push((group.to_string(), name, opcode, short, args));
            } else if let Some(g) = m.get(serde_yaml::Value::from("group")) {
                walk(g, &name, rows)?;
            }
        }
        Ok(())
    }
    walk(&v, "", &mut rows)?;
    Ok(rows)
}

pub fn golden_rows() -> Vec<SpecRow> {
    TABLE
        .iter()
        .map(|(g, n, o, s, a)| (g.to_string(), n.to_string(), *o, s.to_string(), *a))
        .collect()
}
