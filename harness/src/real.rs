//! Drivers for the real VM (DESIGN §3.2): `run_exec` (the public exec entry points) and the
//! lock-step comparer built on the public `sync::step_op`.

use crate::doubles::{AuditGas, CostTable, ModelViews, StErr, StateSpec, Views};
use crate::engine::{no_panic, Obs, Violation};
use crate::model::ops::MOp;
use crate::model::vm::{self as mvm, ErrClass, Event, MSolution, MState, Machine, RSlot, Stop};
use crate::{ensure, viol};
use essential_asm::Op;
use essential_types::solution::{Mutation, Solution};
use essential_types::{ContentAddress, PredicateAddress};
use essential_vm::error::{ComputeError, ExecError, OpError};
use essential_vm::{Access, GasLimit, Memory, ProgramControlFlow, Repeat, Stack, Vm};
use serde::{Deserialize, Serialize};
use std::cell::Cell;
use std::sync::Arc;

pub fn to_real_solution(s: &MSolution) -> Solution {
    Solution {
        predicate_to_solve: PredicateAddress {
            contract: ContentAddress(s.contract),
            predicate: ContentAddress(s.predicate),
        },
        predicate_data: s.data.clone(),
        state_mutations: s
            .mutations
            .iter()
            .map(|(k, v)| Mutation {
                key: k.clone(),
                value: v.clone(),
            })
            .collect(),
    }
}

pub fn to_real_solutions(s: &[MSolution]) -> Vec<Solution> {
    s.iter().map(to_real_solution).collect()
}

pub fn to_real_ops(p: &[MOp]) -> Vec<Op> {
    p.iter().map(|m| m.to_real()).collect()
}

/// Build a `Vm` in the given (reachable) machine state through public constructors only.
pub fn make_vm(st: &MState) -> Option<Vm> {
    let mut repeat = Repeat::new();
    for slot in &st.repeat {
        match slot {
            RSlot::Up { counter, limit, start } => {
                repeat.repeat_to(*start, *limit).ok()?;
                for _ in 0..*counter {
                    // each call increments the counter while counter < limit-1
                    if repeat.repeat().ok()? != Some(*start) {
                        return None;
                    }
                }
            }
            RSlot::Down { counter, start } => {
                repeat.repeat_from(*start, *counter).ok()?;
            }
        }
    }
    Some(Vm {
        pc: st.pc,
        stack: Stack::try_from(st.stack.clone()).ok()?,
        memory: Memory::try_from(st.memory.clone()).ok()?,
        repeat,
        ..Default::default()
    })
}

/// Parse the repeat stack out of its `Debug` rendering (fields are private).
pub fn parse_repeat(r: &Repeat) -> Vec<RSlot> {
    let s = format!("{r:?}");
    let mut out = Vec::new();
    for part in s.split("Slot {").skip(1) {
        let num_after = |tag: &str| -> Option<i128> {
            let i = part.find(tag)? + tag.len();
            let rest = &part[i..];
            let end = rest
                .find(|c: char| !(c.is_ascii_digit() || c == '-'))
                .unwrap_or(rest.len());
            rest[..end].trim().parse::<i128>().ok()
        };
        let counter = num_after("counter: ").unwrap_or(0) as i64;
        let start = num_after("repeat_index: ").unwrap_or(0) as usize;
        if let Some(l) = num_after("limit: Up(") {
            out.push(RSlot::Up {
                counter,
                limit: l as i64,
                start,
            });
        } else {
            out.push(RSlot::Down { counter, start });
        }
    }
    out
}

pub fn vm_state(vm: &Vm) -> MState {
    MState {
        pc: vm.pc,
        stack: vm.stack.to_vec(),
        memory: vm.memory.to_vec(),
        repeat: parse_repeat(&vm.repeat),
    }
}

#[derive(Clone, Debug, PartialEq, Eq)]
pub enum RealErr {
    OutOfGas { spent: u64, op_gas: u64, limit: u64 },
    OutOfGasInCompute,
    StateRead(String),
    Other(String),
}

pub fn classify<E: std::fmt::Display + std::fmt::Debug>(e: &OpError<E>, state_err: impl Fn(&E) -> String + Copy) -> RealErr {
    match e {
        OpError::OutOfGas(g) => RealErr::OutOfGas {
            spent: g.spent,
            op_gas: g.op_gas,
            limit: g.limit,
        },
        OpError::StateRead(s) => RealErr::StateRead(state_err(s)),
        OpError::Compute(ComputeError::Exec(b)) => {
            let ExecError(_, inner) = &**b;
            match classify(inner, state_err) {
                RealErr::OutOfGas { .. } | RealErr::OutOfGasInCompute => RealErr::OutOfGasInCompute,
                _ => RealErr::Other(format!("{e}")),
            }
        }
        other => RealErr::Other(format!("{other}")),
    }
}

/// Does a real error match the model's error class?
pub fn class_matches(model: &ErrClass, real: &RealErr, op_is_compute: bool) -> bool {
    match model {
        ErrClass::Any => true,
        ErrClass::Other => !matches!(real, RealErr::OutOfGas { .. } | RealErr::OutOfGasInCompute | RealErr::StateRead(_)),
        ErrClass::OutOfGas { spent, op_gas } => {
            matches!(real, RealErr::OutOfGas { spent: s, op_gas: g, .. } if s == spent && g == op_gas)
        }
        ErrClass::OutOfGasInCompute => {
            matches!(real, RealErr::OutOfGasInCompute) || (op_is_compute && matches!(real, RealErr::OutOfGas { .. }))
        }
        ErrClass::StateRead(m) => matches!(real, RealErr::StateRead(r) if r == m),
    }
}

/// Everything needed to execute a program on both machines.
#[derive(Clone, Debug, PartialEq, Eq, Hash, Serialize, Deserialize)]
pub struct ExecCase {
    pub prog: Vec<MOp>,
    pub init: MState,
    pub solutions: Vec<MSolution>,
    pub index: usize,
    pub state: StateSpec,
    pub costs: CostTable,
    pub limit: u64,
    /// Some(m): the machine is a compute child whose (read-only) parent memory is `m`.
    #[serde(default)]
    pub parent: Option<Vec<i64>>,
    /// Start with the machine's `halt` flag set (only the C14 execution-equivalence check uses this).
    #[serde(default)]
    pub halt: bool,
}

impl ExecCase {
    /// The real VM in the case's initial state.
    pub fn make_vm(&self) -> Option<Vm> {
        let mut vm = make_vm(&self.init)?;
        if let Some(pm) = &self.parent {
            vm.parent_memory = vec![Arc::new(Memory::try_from(pm.clone()).ok()?)];
        }
        vm.halt = self.halt;
        Some(vm)
    }

    pub fn simple(prog: Vec<MOp>) -> Self {
        ExecCase {
            parent: None,
            halt: false,
            prog,
            init: MState::default(),
            solutions: vec![MSolution::default()],
            index: 0,
            state: StateSpec::default(),
            costs: CostTable::uniform(1),
            limit: u64::MAX,
        }
    }
}

pub struct ExecOutcome {
    pub result: Result<u64, (usize, RealErr)>,
    pub fin: MState,
    pub parent_memory_depth: usize,
    pub audit: (u64, u128),
}

/// Whole-program execution through `Vm::exec_ops` (or `exec_bytecode`).
pub fn run_exec(case: &ExecCase, bytecode: bool) -> Result<ExecOutcome, Violation> {
    run_exec_logged(case, bytecode, None)
}

/// Same, with the state views recording every request into `log`.
pub fn run_exec_logged(case: &ExecCase, bytecode: bool, log: Option<Arc<crate::doubles::Log>>) -> Result<ExecOutcome, Violation> {
    let Some(mut vm) = case.make_vm() else {
        return Err(viol!("harness:unreachable-init", "initial state not constructible: {:?}", case.init));
    };
    let ops = to_real_ops(&case.prog);
    let sols = Arc::new(to_real_solutions(&case.solutions));
    let access = Access::new(sols, case.index as u16);
    let views = Views::from_spec(&case.state, log);
    let gas = AuditGas::new(case.costs.clone());
    let limit = GasLimit {
        per_yield: GasLimit::DEFAULT_PER_YIELD,
        total: case.limit,
    };
    let res = no_panic("Vm::exec", || {
        if bytecode {
            let mapped: essential_vm::BytecodeMapped = ops.iter().copied().collect();
            vm.exec_bytecode(&mapped, access, &views, &gas, limit)
        } else {
            vm.exec_ops(&ops, access, &views, &gas, limit)
        }
    })?;
    let result = match res {
        Ok(g) => Ok(g),
        Err(ExecError(ix, e)) => Err((ix, classify(&e, |s: &StErr| s.0.clone()))),
    };
    Ok(ExecOutcome {
        result,
        fin: vm_state(&vm),
        parent_memory_depth: vm.parent_memory.len(),
        audit: gas.handed_out(),
    })
}

#[derive(Default, Debug, Clone)]
pub struct LockSummary {
    pub steps: u64,
    pub ended: Option<Stop>,
    pub failed_at: Option<usize>,
    pub unspec: Option<&'static str>,
    pub over_budget: bool,
    pub excluded_breadth: bool,
    pub max_stack: usize,
    pub max_memory: usize,
    pub max_repeat: usize,
    pub ops_seen: Vec<MOp>,
    pub taken_jumps: u64,
    pub backward_jumps: u64,
    pub model_gas: u128,
    pub executed_total: u64,
    pub final_state: MState,
    pub compute_log: Vec<mvm::ComputeInfo>,
}

pub struct LockCfg {
    pub budget: u64,
    pub breadth_cap: i64,
    pub record_ops: bool,
}

impl Default for LockCfg {
    fn default() -> Self {
        LockCfg {
            budget: 20_000,
            breadth_cap: 256,
            record_ops: false,
        }
    }
}

fn diff_state(model: &MState, real: &MState) -> Option<String> {
    if model.pc != real.pc {
        return Some(format!("pc: expected {}, VM has {}", model.pc, real.pc));
    }
    if model.stack != real.stack {
        let i = model.stack.iter().zip(&real.stack).position(|(a, b)| a != b);
        return Some(format!(
            "stack differs (expected len {}, VM len {}, first difference at {:?}): expected …{:?}, VM …{:?}",
            model.stack.len(),
            real.stack.len(),
            i,
            tail(&model.stack),
            tail(&real.stack)
        ));
    }
    if model.memory != real.memory {
        let i = model.memory.iter().zip(&real.memory).position(|(a, b)| a != b);
        return Some(format!(
            "memory differs (expected len {}, VM len {}, first difference at {:?}): expected …{:?}, VM …{:?}",
            model.memory.len(),
            real.memory.len(),
            i,
            tail(&model.memory),
            tail(&real.memory)
        ));
    }
    if model.repeat != real.repeat {
        return Some(format!("repeat stack: expected {:?}, VM has {:?}", model.repeat, real.repeat));
    }
    None
}

fn tail(v: &[i64]) -> &[i64] {
    &v[v.len().saturating_sub(12)..]
}

/// Execute the case on RefVm and on the real VM op by op (public `step_op`), comparing after every op
/// and checking the C05 resource bounds. Also used as the termination / resource pre-screen: nothing is
/// executed on the real VM beyond what RefVm has approved step by step.
pub fn lockstep(case: &ExecCase, cfg: &LockCfg, obs: &mut Obs) -> Result<LockSummary, Violation> {
    let mut sum = LockSummary::default();
    let Some(mut vm) = case.make_vm() else {
        return Err(viol!("harness:unreachable-init", "initial state not constructible: {:?}", case.init));
    };
    let ops = to_real_ops(&case.prog);
    let sols = Arc::new(to_real_solutions(&case.solutions));
    let access = Access::new(sols, case.index as u16);
    let views = Views::from_spec(&case.state, None);
    let mviews = ModelViews::from_spec(&case.state);
    let gas = AuditGas::new(case.costs.clone());
    let costs = case.costs.clone();
    let cost_fn = move |op: &MOp| costs.cost(op);
    let env = mvm::Env {
        solutions: &case.solutions,
        index: case.index,
        state: &mviews,
        cost: &cost_fn,
        steps_left: Cell::new(cfg.budget),
        breadth_cap: cfg.breadth_cap,
        cost_calls: Cell::new(0),
    };
    let mut m = Machine::new(&case.prog, case.init.clone(), &env, case.limit);
    if let Some(pm) = &case.parent {
        m.pmem = Some(pm);
        m.in_child = true;
    }
    let mut gas_spent: u64 = 0;
    loop {
        let pc = m.st.pc;
        let Some(op) = m.next_op() else {
            // both must be at the end
            ensure!(vm.pc == pc, "vm:pc", "program ended in the model at pc {pc}, VM pc is {}", vm.pc);
            sum.ended = Some(Stop::End);
            break;
        };
        if cfg.record_ops {
            sum.ops_seen.push(op);
        }
        let before_pc = vm.pc;
        let ev = m.step();
        match &ev {
            Event::OverBudget => {
                sum.over_budget = true;
                obs.skip("over step budget");
                break;
            }
            Event::ExcludedBreadth => {
                sum.excluded_breadth = true;
                obs.skip("compute breadth above cap");
                break;
            }
            _ => {}
        }
        // Real gas accounting exactly as `Vm::exec` documents it.
        let rop = ops[pc];
        let op_gas = essential_vm::OpGasCost::op_gas_cost(&gas, &rop);
        let next_spent = gas_spent.checked_add(op_gas).filter(|s| *s <= case.limit);
        let real_step: Result<Option<ProgramControlFlow>, RealErr> = match next_spent {
            None => Err(RealErr::OutOfGas {
                spent: gas_spent,
                op_gas,
                limit: case.limit,
            }),
            Some(ns) => {
                gas_spent = ns;
                let remaining = GasLimit {
                    per_yield: GasLimit::DEFAULT_PER_YIELD,
                    total: case.limit - gas_spent,
                };
                let r = no_panic("step_op", || {
                    essential_vm::sync::step_op(access.clone(), rop, &mut vm, &views, &ops[..], &gas, remaining)
                })
                .map_err(|mut v| {
                    v.message = format!("{} (op {:?} at pc {pc}, stack tail {:?})", v.message, op, tail(&m.st.stack));
                    v
                })?;
                r.map_err(|e| classify(&e, |s: &StErr| s.0.clone()))
            }
        };
        sum.steps += 1;
        // Apply control flow to the real VM as `Vm::exec` does.
        let mut real_done: Option<Stop> = None;
        if let Ok(flow) = &real_step {
            match flow {
                Some(ProgramControlFlow::Pc(p)) => vm.pc = *p,
                Some(ProgramControlFlow::Halt) => real_done = Some(Stop::Halt),
                Some(ProgramControlFlow::ComputeEnd) => {
                    vm.pc += 1;
                    real_done = Some(Stop::ComputeEnd);
                }
                Some(ProgramControlFlow::ComputeResult((p, g, halt))) => {
                    match gas_spent.checked_add(*g).filter(|s| *s <= case.limit) {
                        Some(s) => gas_spent = s,
                        None => {
                            return Err(viol!(
                                "gas:compute-exceeds-limit",
                                "Compute at pc {pc} returned child gas {g} which together with {gas_spent} exceeds the limit {}",
                                case.limit
                            ))
                        }
                    }
                    vm.pc = *p;
                    if *halt {
                        real_done = Some(Stop::Halt);
                    }
                }
                None => vm.pc += 1,
            }
        }
        // C05 bounds after every executed operation - also one that returned an error: the machine is a public, reusable
        // value, so the state a failed operation leaves behind is a reachable state like any other.
        {
            let rs = vm_state(&vm);
            sum.max_stack = sum.max_stack.max(rs.stack.len());
            sum.max_memory = sum.max_memory.max(rs.memory.len());
            sum.max_repeat = sum.max_repeat.max(rs.repeat.len());
            ensure!(rs.stack.len() <= mvm::S, "bounds:stack", "stack holds {} words after {:?} at pc {pc}", rs.stack.len(), op);
            ensure!(rs.memory.len() <= mvm::M, "bounds:memory", "memory holds {} words after {:?} at pc {pc}", rs.memory.len(), op);
            ensure!(rs.repeat.len() <= mvm::S, "bounds:repeat", "repeat stack holds {} entries after {:?} at pc {pc}", rs.repeat.len(), op);
            ensure!(vm.parent_memory.len() <= 1 && (case.parent.is_some() || vm.parent_memory.is_empty()), "bounds:compute-depth", "compute depth {} after {:?} at pc {pc}", vm.parent_memory.len(), op);
        }
        // Compare with the model's event.
        let cmp_ok_state = |m: &Machine, vm: &Vm, what: &str| -> Result<(), Violation> {
            let rs = vm_state(vm);
            if let Some(d) = diff_state(&m.st, &rs) {
                return Err(viol!(
                    format!("op:{}:result", op.short()),
                    "after {what} {:?} at pc {pc}: {d}",
                    op
                ));
            }
            Ok(())
        };
        let mut stop = false;
        let mut check_ev = |ev: &Event, allow_err: bool| -> Result<(), Violation> {
            match (ev, &real_step) {
                (Event::Continue, Ok(_)) => {
                    ensure!(
                        real_done.is_none(),
                        format!("op:{}:flow", op.short()),
                        "{:?} at pc {pc}: VM stopped ({:?}) where the specification continues",
                        op,
                        real_done
                    );
                    cmp_ok_state(&m, &vm, "executing")?;
                    if m.st.pc != before_pc + 1 && !matches!(op, MOp::COM) {
                        sum.taken_jumps += 1;
                        if m.st.pc <= before_pc {
                            sum.backward_jumps += 1;
                        }
                    }
                }
                (Event::Done(s), Ok(_)) => {
                    ensure!(
                        real_done == Some(*s),
                        format!("op:{}:flow", op.short()),
                        "{:?} at pc {pc}: specification ends the program ({s:?}), VM: {:?}",
                        op,
                        real_done
                    );
                    cmp_ok_state(&m, &vm, "ending with")?;
                    sum.ended = Some(*s);
                    stop = true;
                }
                (Event::Failed { index, class }, Err(re)) => {
                    ensure!(*index == pc, "harness:index", "model failure index {index} != pc {pc}");
                    ensure!(
                        class_matches(class, re, matches!(op, MOp::COM)),
                        format!("op:{}:error-class", op.short()),
                        "{:?} at pc {pc}: specification fails with {class:?}, VM fails with {re:?}",
                        op
                    );
                    sum.failed_at = Some(pc);
                    stop = true;
                }
                (Event::Failed { class, .. }, Ok(_)) => {
                    return Err(viol!(
                        format!("op:{}:should-fail", op.short()),
                        "{:?} at pc {pc} must fail ({class:?}) but the VM succeeded; stack tail before: see case; VM stack tail now {:?}",
                        op,
                        tail(&vm.stack)
                    ))
                }
                (Event::Continue | Event::Done(_), Err(re)) => {
                    if allow_err {
                        sum.failed_at = Some(pc);
                        stop = true;
                    } else {
                        return Err(viol!(
                            format!("op:{}:should-succeed", op.short()),
                            "{:?} at pc {pc} must succeed but the VM failed with {re:?}; expected stack tail {:?}",
                            op,
                            tail(&m.st.stack)
                        ));
                    }
                }
                _ => {}
            }
            Ok(())
        };
        match &ev {
            Event::Unspec(r) => {
                sum.unspec = Some(r);
                obs.skip(r);
                break;
            }
            Event::EitherErrOr(inner) => {
                obs.label("two-valued expectation");
                check_ev(inner, true)?;
            }
            other => check_ev(other, false)?,
        }
        if stop {
            break;
        }
    }
    sum.model_gas = m.gas;
    sum.executed_total = m.executed_total;
    sum.final_state = m.st.clone();
    sum.compute_log = m.compute_log.clone();
    // Gas as accounted by the stepped driver equals the model's sum when nothing failed.
    if sum.failed_at.is_none() && sum.unspec.is_none() && !sum.over_budget && !sum.excluded_breadth {
        ensure!(
            gas_spent as u128 == m.gas,
            "gas:sum",
            "gas after the run: VM accounting {gas_spent}, specification {}",
            m.gas
        );
    }
    Ok(sum)
}

/// After a clean lock-step run, the whole-program entry point must agree with it (final state, gas / error).
pub fn exec_agrees_with_lockstep(case: &ExecCase, sum: &LockSummary) -> Result<(), Violation> {
    if sum.unspec.is_some() || sum.over_budget || sum.excluded_breadth {
        return Ok(());
    }
    let out = run_exec(case, false)?;
    match (&out.result, sum.failed_at) {
        (Ok(g), None) => {
            ensure!(*g as u128 == sum.model_gas, "exec:gas", "exec_ops returned gas {g}, expected {}", sum.model_gas);
            if let Some(d) = diff_state(&sum.final_state, &out.fin) {
                return Err(viol!("exec:final-state", "exec_ops final state differs from step-wise execution: {d}"));
            }
            ensure!(out.parent_memory_depth == usize::from(case.parent.is_some()), "bounds:compute-depth", "compute depth after exec: {}", out.parent_memory_depth);
        }
        (Err((ix, _)), Some(at)) => {
            ensure!(*ix == at, "exec:error-index", "exec_ops reports the error at op {ix}, step-wise execution failed at {at}");
        }
        (Ok(g), Some(at)) => return Err(viol!("exec:should-fail", "exec_ops returned Ok({g}) but op {at} must fail")),
        (Err((ix, e)), None) => return Err(viol!("exec:should-succeed", "exec_ops failed at {ix} with {e:?} but the program must succeed")),
    }
    Ok(())
}

/// `Vm::eval_ops`: Ok(bool) or an error rendering.
pub fn run_eval(case: &ExecCase) -> Result<Result<bool, String>, Violation> {
    let Some(mut vm) = case.make_vm() else {
        return Err(viol!("harness:unreachable-init", "initial state not constructible: {:?}", case.init));
    };
    let ops = to_real_ops(&case.prog);
    let sols = Arc::new(to_real_solutions(&case.solutions));
    let access = Access::new(sols, case.index as u16);
    let views = Views::from_spec(&case.state, None);
    let gas = AuditGas::new(case.costs.clone());
    let limit = GasLimit {
        per_yield: GasLimit::DEFAULT_PER_YIELD,
        total: case.limit,
    };
    let r = no_panic("Vm::eval_ops", || vm.eval_ops(&ops, access, &views, &gas, limit))?;
    Ok(r.map_err(|e| format!("{e}")))
}

/// Run the model alone (whole program).
pub fn run_model(case: &ExecCase, budget: u64, breadth_cap: i64) -> (mvm::RunResult, MState, u128, u64) {
    let (r, st, gas, exec, _) = run_model_calls(case, budget, breadth_cap);
    (r, st, gas, exec)
}

/// Same, also returning how often the model consulted the cost function.
pub fn run_model_calls(case: &ExecCase, budget: u64, breadth_cap: i64) -> (mvm::RunResult, MState, u128, u64, u64) {
    let mviews = ModelViews::from_spec(&case.state);
    let costs = case.costs.clone();
    let cost_fn = move |op: &MOp| costs.cost(op);
    let env = mvm::Env {
        solutions: &case.solutions,
        index: case.index,
        state: &mviews,
        cost: &cost_fn,
        steps_left: Cell::new(budget),
        breadth_cap,
        cost_calls: Cell::new(0),
    };
    let mut m = Machine::new(&case.prog, case.init.clone(), &env, case.limit);
    if let Some(pm) = &case.parent {
        m.pmem = Some(pm);
        m.in_child = true;
    }
    let r = m.run();
    (r, m.st.clone(), m.gas, m.executed_total, env.cost_calls.get())
}

/// Gas of the model machine right after its first top-level Compute joined successfully (None if there is none).
pub fn model_gas_after_first_compute(case: &ExecCase, budget: u64, breadth_cap: i64) -> Option<u128> {
    let mviews = ModelViews::from_spec(&case.state);
    let costs = case.costs.clone();
    let cost_fn = move |op: &MOp| costs.cost(op);
    let env = mvm::Env {
        solutions: &case.solutions,
        index: case.index,
        state: &mviews,
        cost: &cost_fn,
        steps_left: Cell::new(budget),
        breadth_cap,
        cost_calls: Cell::new(0),
    };
    let mut m = Machine::new(&case.prog, case.init.clone(), &env, case.limit);
    if let Some(pm) = &case.parent {
        m.pmem = Some(pm);
        m.in_child = true;
    }
    let _ = m.run();
    m.compute_log.first().filter(|c| c.ok).map(|c| c.gas_after)
}

pub fn vm_state_tail(v: &[i64]) -> &[i64] {
    tail(v)
}
