// doubles
