//! Test doubles: state views (map / scripted / recording / delaying), audited gas cost tables.

use crate::model::ops::{MOp, N_OPS};
use crate::model::vm::ModelState;
use essential_types::{ContentAddress, Key, Word};
use essential_vm::{StateRead, StateReads};
use serde::{Deserialize, Serialize};
use std::collections::{BTreeMap, BTreeSet};
use std::sync::atomic::{AtomicU64, Ordering};
use std::sync::{Arc, Mutex};

pub type Addr = [u8; 32];

#[derive(Clone, Debug, PartialEq, Eq, Hash, Serialize, Deserialize)]
pub struct StErr(pub String);

impl std::fmt::Display for StErr {
    fn fmt(&self, f: &mut std::fmt::Formatter<'_>) -> std::fmt::Result {
        write!(f, "state error: {}", self.0)
    }
}

/// The repository's key increment convention: last word + 1, MAX -> MIN with carry, None on overflow.
pub fn next_key(mut key: Vec<i64>) -> Option<Vec<i64>> {
    for w in key.iter_mut().rev() {
        if *w == i64::MAX {
            *w = i64::MIN;
        } else {
            *w += 1;
            return Some(key);
        }
    }
    None
}

/// More values than this can never fit the VM memory (2 words of pair table per value).
pub const MATERIALISE_CAP: usize = 6000;

#[derive(Clone, Debug, Default, PartialEq, Eq, Hash, Serialize, Deserialize)]
pub struct MapSpec {
    pub contracts: Vec<(Addr, Vec<(Vec<i64>, Vec<i64>)>)>,
    /// Reads of these contracts fail with an error.
    pub fail_contracts: Vec<Addr>,
}

#[derive(Clone, Debug, PartialEq, Eq, Hash, Serialize, Deserialize)]
pub enum ViewSpec {
    Map(MapSpec),
    /// Answers every request with exactly this, whatever was asked.
    Scripted(Result<Vec<Vec<i64>>, String>),
}

impl Default for ViewSpec {
    fn default() -> Self {
        ViewSpec::Map(MapSpec::default())
    }
}

#[derive(Clone, Debug, Default, PartialEq, Eq, Hash, Serialize, Deserialize)]
pub struct StateSpec {
    pub pre: ViewSpec,
    pub post: ViewSpec,
}

pub enum ViewImpl {
    Map {
        map: BTreeMap<Addr, BTreeMap<Vec<i64>, Vec<i64>>>,
        fail: BTreeSet<Addr>,
    },
    Scripted(Result<Vec<Vec<i64>>, String>),
}

impl ViewImpl {
    pub fn from_spec(s: &ViewSpec) -> ViewImpl {
        match s {
            ViewSpec::Map(m) => {
                let mut map: BTreeMap<Addr, BTreeMap<Vec<i64>, Vec<i64>>> = BTreeMap::new();
                for (c, kvs) in &m.contracts {
                    let e = map.entry(*c).or_default();
                    for (k, v) in kvs {
                        if v.is_empty() {
                            e.remove(k);
                        } else {
                            e.insert(k.clone(), v.clone());
                        }
                    }
                }
                ViewImpl::Map {
                    map,
                    fail: m.fail_contracts.iter().copied().collect(),
                }
            }
            ViewSpec::Scripted(r) => ViewImpl::Scripted(r.clone()),
        }
    }

    pub fn read(&self, contract: &Addr, key: &[i64], count: usize) -> Result<Vec<Vec<i64>>, StErr> {
        match self {
            ViewImpl::Scripted(r) => r.clone().map_err(StErr),
            ViewImpl::Map { map, fail } => {
                if fail.contains(contract) {
                    return Err(StErr(format!("contract {:02x}{:02x}.. unavailable", contract[0], contract[1])));
                }
                let c = map.get(contract);
                let mut out = Vec::new();
                let mut k = key.to_vec();
                for _ in 0..count.min(MATERIALISE_CAP) {
                    out.push(c.and_then(|c| c.get(&k)).cloned().unwrap_or_default());
                    match next_key(k) {
                        Some(n) => k = n,
                        None => break,
                    }
                }
                Ok(out)
            }
        }
    }
}

#[derive(Clone, Debug, PartialEq, Eq)]
pub struct Req {
    pub seq: u64,
    pub post: bool,
    pub contract: Addr,
    pub key: Vec<i64>,
    pub count: usize,
}

#[derive(Default)]
pub struct Log {
    pub seq: AtomicU64,
    pub reqs: Mutex<Vec<Req>>,
}

/// Spin for a generated number of iterations (schedule perturbation, C02).
pub fn spin(iters: u64) {
    let mut x = 0u64;
    for i in 0..iters {
        x = x.wrapping_mul(6364136223846793005).wrapping_add(i);
        std::hint::black_box(x);
    }
}

/// Delay table: delay for a request is chosen by a hash of (key, count) so that it is a pure
/// function of the case.
#[derive(Clone, Debug, Default, PartialEq, Eq, Hash, Serialize, Deserialize)]
pub struct DelayTable {
    pub salt: u64,
    pub max_spin: u64,
}

impl DelayTable {
    pub fn delay_for(&self, key: &[i64], count: usize) -> u64 {
        if self.max_spin == 0 {
            return 0;
        }
        let h = crate::engine::case_hash(&(self.salt, key, count));
        h % self.max_spin
    }
}

#[derive(Clone)]
pub struct View {
    pub post: bool,
    pub imp: Arc<ViewImpl>,
    pub log: Option<Arc<Log>>,
    pub delay: Option<DelayTable>,
}

impl StateRead for View {
    type Error = StErr;
    fn key_range(&self, contract_addr: ContentAddress, key: Key, num_values: usize) -> Result<Vec<Vec<Word>>, StErr> {
        if let Some(d) = &self.delay {
            spin(d.delay_for(&key, num_values));
        }
        if let Some(log) = &self.log {
            let seq = log.seq.fetch_add(1, Ordering::SeqCst);
            log.reqs.lock().unwrap().push(Req {
                seq,
                post: self.post,
                contract: contract_addr.0,
                key: key.clone(),
                count: num_values,
            });
        }
        self.imp.read(&contract_addr.0, &key, num_values)
    }
}

#[derive(Clone)]
pub struct Views {
    pub pre: View,
    pub post: View,
}

impl StateReads for Views {
    type Error = StErr;
    type Pre = View;
    type Post = View;
    fn pre(&self) -> &View {
        &self.pre
    }
    fn post(&self) -> &View {
        &self.post
    }
}

impl Views {
    pub fn from_spec(spec: &StateSpec, log: Option<Arc<Log>>) -> Views {
        Views {
            pre: View {
                post: false,
                imp: Arc::new(ViewImpl::from_spec(&spec.pre)),
                log: log.clone(),
                delay: None,
            },
            post: View {
                post: true,
                imp: Arc::new(ViewImpl::from_spec(&spec.post)),
                log,
                delay: None,
            },
        }
    }
}

/// The model's (non-recording) view of the same state.
pub struct ModelViews {
    pub pre: ViewImpl,
    pub post: ViewImpl,
}

impl ModelViews {
    pub fn from_spec(spec: &StateSpec) -> Self {
        ModelViews {
            pre: ViewImpl::from_spec(&spec.pre),
            post: ViewImpl::from_spec(&spec.post),
        }
    }
}

impl ModelState for ModelViews {
    fn read(&self, post: bool, contract: &[u8; 32], key: &[i64], count: usize) -> Result<Vec<Vec<i64>>, String> {
        let v = if post { &self.post } else { &self.pre };
        v.read(contract, key, count).map_err(|e| e.0)
    }
}

/// Gas cost table with an audit trail.
#[derive(Clone, Debug, PartialEq, Eq, Hash, Serialize, Deserialize)]
pub struct CostTable(pub Vec<u64>);

impl CostTable {
    pub fn uniform(c: u64) -> Self {
        CostTable(vec![c; N_OPS])
    }
    pub fn cost(&self, op: &MOp) -> u64 {
        self.0[op.index()]
    }
}

pub struct AuditGas {
    pub table: CostTable,
    pub count: AtomicU64,
    pub sum: Mutex<u128>,
    /// Optional spin per cost request (schedule perturbation): hash(salt, op index) % max.
    pub delay: Option<DelayTable>,
}

impl AuditGas {
    pub fn new(table: CostTable) -> Self {
        AuditGas {
            table,
            count: AtomicU64::new(0),
            sum: Mutex::new(0),
            delay: None,
        }
    }
    pub fn handed_out(&self) -> (u64, u128) {
        (self.count.load(Ordering::SeqCst), *self.sum.lock().unwrap())
    }
}

impl essential_vm::OpGasCost for AuditGas {
    fn op_gas_cost(&self, op: &essential_asm::Op) -> u64 {
        let m = MOp::from_real(op);
        let c = self.table.cost(&m);
        self.count.fetch_add(1, Ordering::SeqCst);
        *self.sum.lock().unwrap() += c as u128;
        if let Some(d) = &self.delay {
            spin(d.delay_for(&[m.index() as i64], self.count.load(Ordering::Relaxed) as usize % 7));
        }
        c
    }
}
