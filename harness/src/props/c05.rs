//! C05 — The VM is total: never panics and stays within its resource bounds.

use crate::engine::{enum_sub, no_panic, prop_sub, Obs, Property, Tier, Violation};
use crate::gen::{self, cases, programs, BOUNDARY};
use crate::model::asm as refasm;
use crate::model::ops::MOp::{self, *};
use crate::model::ops::ALL;
use crate::real::{exec_agrees_with_lockstep, lockstep, ExecCase, LockCfg};
use proptest::prelude::*;
use serde::{Deserialize, Serialize};

pub const BREADTH_CAP_QUICK: i64 = 256;

pub fn oracle(case: &ExecCase, obs: &mut Obs) -> Result<(), Violation> {
    let cfg = LockCfg {
        budget: 20_000,
        breadth_cap: BREADTH_CAP_QUICK,
        record_ops: false,
    };
    let sum = lockstep(case, &cfg, obs)?;
    exec_agrees_with_lockstep(case, &sum)?;
    // the mapped-bytecode entry point must be total as well
    if sum.unspec.is_none() && !sum.over_budget && !sum.excluded_breadth {
        crate::real::run_exec(case, true)?;
    }
    let boundary = case.prog.iter().any(|o| matches!(o, PUSH(w) if BOUNDARY.contains(w)))
        || sum.failed_at.is_some()
        || sum.taken_jumps > 0
        || sum.max_stack + 2 >= 4096
        || sum.max_memory + 2 >= 10240;
    obs.nontrivial_if(sum.steps >= 3 && boundary);
    if sum.steps >= 20 {
        obs.label("ran>=20ops");
    }
    if sum.failed_at.is_some() {
        obs.label("typed-error");
    } else {
        obs.label("ok");
    }
    Ok(())
}

const ALPHABET_WORDS: &[i64] = &[0, 1, -1, 2, 3, 4, 8, 63, 64, 4095, 4096, 10240, i64::MIN, i64::MIN + 1, i64::MAX, i64::MAX - 1];

fn alphabet() -> Vec<MOp> {
    let mut v: Vec<MOp> = ALL.iter().copied().filter(|o| !matches!(o, PUSH(_))).collect();
    v.extend(ALPHABET_WORDS.iter().map(|w| PUSH(*w)));
    v
}

fn init_stacks() -> Vec<Vec<i64>> {
    vec![vec![], vec![1, 1], vec![2, 0, 1], vec![i64::MAX, i64::MIN, -1, 3, 1], vec![1, 5, i64::MIN], vec![7, i64::MAX]]
}

fn short_programs(t: Tier) -> Box<dyn Iterator<Item = ExecCase>> {
    let a = alphabet();
    let max_len = t.pick(2usize, 3usize);
    let n = a.len();
    let mut total = 0usize;
    for l in 1..=max_len {
        total += n.pow(l as u32);
    }
    let stacks = init_stacks();
    Box::new((0..total).flat_map(move |mut ix| {
        // decode ix into a program of length 1..=max_len
        let mut len = 1;
        let mut block = n;
        while ix >= block {
            ix -= block;
            len += 1;
            block *= n;
        }
        let mut prog = Vec::with_capacity(len);
        for _ in 0..len {
            prog.push(a[ix % n]);
            ix /= n;
        }
        let stacks = stacks.clone();
        (0..stacks.len()).map(move |s| {
            let mut c = ExecCase::simple(prog.clone());
            c.init.stack = stacks[s].clone();
            if s >= 3 {
                c.init.memory = vec![5, 6, 7];
            }
            c
        })
    }))
}

#[derive(Clone, Debug, Hash, Serialize, Deserialize)]
pub struct BytesCase {
    pub bytes: Vec<u8>,
    pub init_stack: Vec<i64>,
}

/// Arbitrary byte strings as bytecode: mapping and parsing never panic; whatever parses is executed in lock-step.
pub fn oracle_bytes(c: &BytesCase, obs: &mut Obs) -> Result<(), Violation> {
    let mapped = no_panic("BytecodeMapped::try_from(Vec<u8>)", || essential_vm::BytecodeMapped::try_from(c.bytes.clone()))?;
    let _slice = no_panic("BytecodeMapped::try_from(&[u8])", || essential_vm::BytecodeMapped::try_from(&c.bytes[..]).is_ok())?;
    let parsed = no_panic("asm::from_bytes", || {
        essential_asm::from_bytes(c.bytes.iter().copied()).collect::<Result<Vec<_>, _>>()
    })?;
    match refasm::decode(&c.bytes) {
        Ok((mops, _)) => {
            crate::ensure!(mapped.is_ok() && parsed.is_ok(), "bytes:rejects-valid", "valid bytecode rejected: {:02x?}", c.bytes);
            let mut case = crate::props::c08::program_case(mops);
            case.init.stack = c.init_stack.clone();
            oracle(&case, obs)?;
        }
        Err(_) => {
            crate::ensure!(mapped.is_err() && parsed.is_err(), "bytes:accepts-invalid", "invalid bytecode accepted: {:02x?}", c.bytes);
            obs.label("invalid-bytecode");
            obs.nontrivial();
        }
    }
    Ok(())
}

fn bytes_case() -> impl Strategy<Value = BytesCase> {
    (
        prop_oneof![
            2 => proptest::collection::vec(any::<u8>(), 0..60),
            3 => proptest::collection::vec(prop_oneof![4 => (0..ALL.len()).prop_map(|i| ALL[i].opcode()), 1 => any::<u8>()], 0..60),
            4 => (programs::soup(40), proptest::option::of((any::<u32>(), any::<u8>()))).prop_map(|(ops, m)| {
                let mut b = refasm::encode(&ops);
                if let (Some((pos, val)), false) = (m, b.is_empty()) {
                    let i = gen::pick_ix(pos, b.len());
                    b[i] = val;
                }
                b
            }),
        ],
        proptest::collection::vec(gen::word(), 0..5),
    )
        .prop_map(|(bytes, init_stack)| BytesCase { bytes, init_stack })
}

pub fn property() -> Property {
    Property {
        id: "C05",
        rule: "bounded-exhaustive: all programs of length <= 2 (thorough: <= 3) over {61 non-Push ops} u {Push b : 16 boundary words} from 6 initial stacks; generated: op soup, Compute blocks forked from full / nearly full parent stacks and memories with children whose total memory straddles the limit, structured programs (jumps, repeats, compute) and arbitrary byte strings, from random reachable machine states (stack/memory incl. at the limits, active repeat stacks, pc), random predicate data, map-backed and scripted state answers (ragged, oversize, errors), random gas tables (0..u64::MAX) and limits; every case in the overflow-checked and the release build. Checked: no panic/abort (supervised child process), typed error or Ok, bounds after every op (stack<=4096, memory<=10240, repeat<=4096, compute depth<=1), agreement with RefVm after every op and of exec_ops/exec_bytecode with the step-wise run. Non-trivial = executes >= 3 ops and touches a boundary (boundary immediate, failing op, taken jump, or a size within 2 of its limit).",
        assumptions: vec![
            "Compute breadth above the tier's cap (256 quick / 4096 thorough) is excluded by construction (known finding F-C05b) and counted as skipped",
            "programs are pre-screened by RefVm under a step budget; over-budget cases are skipped and counted",
        ],
        health: vec![("vm.random_programs", "ran>=20ops", 100)],
        subs: vec![
            enum_sub("vm.exhaustive_short", short_programs, oracle).may_abort().both_profiles(),
            prop_sub(
                "vm.random_programs",
                30_000,
                1_500_000,
                |_| {
                    prop_oneof![
                        2 => cases::exec_case(programs::soup(40), true).boxed(),
                        3 => cases::exec_case(programs::structured(programs::StructCfg::default()), false).boxed(),
                        1 => cases::exec_case(programs::structured(programs::StructCfg::default()), true).boxed(),
                        1 => crate::props::c09::jump_case().boxed(),
                        // Compute from full / nearly full parents: children's memory around the limit at the join
                        1 => crate::props::c10::children_case().boxed(),
                        1 => crate::props::c10::error_case().boxed(),
                    ]
                },
                oracle,
            )
            .may_abort()
            .both_profiles(),
            prop_sub("vm.bytes", 20_000, 1_000_000, |_| bytes_case(), oracle_bytes).may_abort().both_profiles(),
        ],
    }
}

/// Probe for the known finding F-C05b: `[Push 2^26, Compute]` under a tight address-space limit.
pub fn probe_compute_breadth() -> i32 {
    use essential_vm::{Access, GasLimit, Vm};
    let ops = crate::real::to_real_ops(&[PUSH(1 << 26), COM]);
    let sols = std::sync::Arc::new(crate::real::to_real_solutions(&[Default::default()]));
    let views = crate::doubles::Views::from_spec(&Default::default(), None);
    let mut vm = Vm::default();
    let r = vm.exec_ops(
        &ops,
        Access::new(sols, 0),
        &views,
        &|_: &essential_asm::Op| 1u64,
        GasLimit {
            per_yield: GasLimit::DEFAULT_PER_YIELD,
            total: 10,
        },
    );
    // Reaching this point means the process survived; an error result means the breadth is now bounded.
    match r {
        Ok(_) => 1, // executed 2^26 children on a gas limit of 10: still unbounded
        Err(_) => 0,
    }
}
