//! C17 — Content addresses are canonical, order-independent and injective up to SHA-256.

use crate::engine::{enum_sub, no_panic, prop_sub, Obs, Property, Tier, Violation};
use crate::gen::values::{self, ContractM, PredM};
use crate::gen::{self};
use crate::model::codec::{self, sha256};
use crate::model::vm::MSolution;
use crate::real::to_real_solution;
use crate::{ensure, viol};
use essential_hash::{content_addr, contract_addr, solution_set_addr, Address};
use essential_types::predicate::Program;
use essential_types::solution::SolutionSet;
use essential_types::ContentAddress;
use proptest::prelude::*;
use serde::{Deserialize, Serialize};

pub fn ref_pred_bytes(p: &PredM) -> Vec<u8> {
    codec::encode_predicate(&p.nodes, &p.edges)
}

pub fn ref_pred_addr(p: &PredM) -> [u8; 32] {
    sha256(&ref_pred_bytes(p))
}

pub fn ref_contract_prehash(c: &ContractM) -> Vec<u8> {
    let mut addrs: Vec<[u8; 32]> = c.preds.iter().map(ref_pred_addr).collect();
    addrs.sort();
    let mut bytes: Vec<u8> = addrs.iter().flatten().copied().collect();
    bytes.extend_from_slice(&c.salt);
    bytes
}

pub fn ref_solution_bytes(s: &MSolution) -> Vec<u8> {
    codec::postcard_solution(&s.contract, &s.predicate, &s.data, &s.mutations)
}

pub fn ref_set_prehash(s: &[MSolution]) -> Vec<u8> {
    let mut addrs: Vec<[u8; 32]> = s.iter().map(|x| sha256(&ref_solution_bytes(x))).collect();
    addrs.sort();
    addrs.iter().flatten().copied().collect()
}

fn within_limits(p: &PredM) -> bool {
    p.nodes.len() <= 1000 && p.edges.len() <= 1000
}

pub fn check_pred(p: &PredM, obs: &mut Obs) -> Result<(), Violation> {
    let real = p.to_real();
    let want = ref_pred_bytes(p);
    let enc = no_panic("Predicate::encode", || real.encode().map(|i| i.collect::<Vec<u8>>()))?;
    if !within_limits(p) {
        ensure!(enc.is_err(), "addr:oversize-encoded", "a predicate beyond the limits was encoded");
        obs.skip("predicate beyond the limits");
        return Ok(());
    }
    let enc = enc.map_err(|e| viol!("addr:encode-fails", "encode() fails ({e:?}) for a predicate with {} nodes / {} edges", p.nodes.len(), p.edges.len()))?;
    ensure!(enc == want, "addr:predicate-encoding", "encode() differs from the documented layout ({} nodes, {} edges): first difference at byte {:?}", p.nodes.len(), p.edges.len(), enc.iter().zip(&want).position(|(a, b)| a != b));
    let size = no_panic("encoded_size", || real.encoded_size())?;
    ensure!(size == enc.len(), "addr:encoded-size", "encoded_size() = {size}, the encoding has {} bytes", enc.len());
    let a = no_panic("content_addr(predicate)", || content_addr(&real))?;
    ensure!(
        a.0 == sha256(&want),
        "addr:predicate-address",
        "content_addr(predicate) is not the SHA-256 of its documented encoding ({} nodes, {} edges, {} bytes)",
        p.nodes.len(),
        p.edges.len(),
        want.len()
    );
    ensure!(real.content_address() == a, "addr:trait-disagrees", "Address::content_address and content_addr disagree for a predicate");
    // the documented encoding decodes back to the value (injectivity of the pre-hash bytes)
    let back = codec::decode_predicate_prefix(&want).ok_or_else(|| viol!("harness:ref-decode", "reference decoder failed"))?;
    ensure!(back.0 == p.nodes && back.1 == p.edges && back.2 == want.len(), "harness:ref-roundtrip", "reference codec round trip failed");
    Ok(())
}

#[derive(Clone, Debug, Hash, Serialize, Deserialize)]
pub enum Perturb {
    None,
    NodeByte(u32, u8, u8),
    EdgeStart(u32, u16),
    Edge(u32, u16),
    SaltBit(u8),
    DropPred(u32),
    DupPred(u32),
    ExtraEdge(u16),
    /// Set one node's edge_start to a value that decoders / encoders may treat specially: 0, the number of edges
    /// (+-1), the leaf marker (-1).
    EdgeStartTo(u32, u16, u8),
}

#[derive(Clone, Debug, Hash, Serialize, Deserialize)]
pub struct ContractCase {
    pub c: ContractM,
    pub perm: Vec<u32>,
    pub perturb: Perturb,
}

pub fn shuffle<T: Clone>(v: &[T], choices: &[u32]) -> Vec<T> {
    let mut p: Vec<T> = v.to_vec();
    let n = p.len();
    for i in (1..n).rev() {
        let c = choices.get(n - 1 - i).copied().unwrap_or(0);
        let j = ((c as u64 * (i as u64 + 1)) >> 32) as usize;
        p.swap(i, j);
    }
    p
}

/// Applies the perturbation; returns None if it does not change the value (as a multiset of predicates + salt).
pub fn perturb_contract(c: &ContractM, p: &Perturb) -> Option<ContractM> {
    let mut out = c.clone();
    match p {
        Perturb::None => return None,
        Perturb::NodeByte(pi, ni_b, x) => {
            if c.preds.is_empty() {
                return None;
            }
            let i = gen::pick_ix(*pi, c.preds.len());
            let pr = &mut out.preds[i];
            if pr.nodes.is_empty() {
                return None;
            }
            let ni = (*ni_b as usize) % pr.nodes.len();
            let bi = (*x as usize) % 32;
            pr.nodes[ni].1[bi] ^= 1 + (*x >> 5);
        }
        Perturb::EdgeStart(pi, v) => {
            if c.preds.is_empty() {
                return None;
            }
            let i = gen::pick_ix(*pi, c.preds.len());
            let pr = &mut out.preds[i];
            if pr.nodes.is_empty() {
                return None;
            }
            let ni = *v as usize % pr.nodes.len();
            pr.nodes[ni].0 = pr.nodes[ni].0.wrapping_add(1 + (*v >> 8));
        }
        Perturb::EdgeStartTo(pi, v, which) => {
            if c.preds.is_empty() {
                return None;
            }
            let i = gen::pick_ix(*pi, c.preds.len());
            let pr = &mut out.preds[i];
            if pr.nodes.is_empty() {
                return None;
            }
            let ni = *v as usize % pr.nodes.len();
            let n = pr.edges.len() as u16;
            let to = [0, n, n.wrapping_sub(1), n.wrapping_add(1), u16::MAX, u16::MAX - 1][*which as usize % 6];
            if pr.nodes[ni].0 == to {
                return None;
            }
            pr.nodes[ni].0 = to;
        }
        Perturb::Edge(pi, v) => {
            if c.preds.is_empty() {
                return None;
            }
            let i = gen::pick_ix(*pi, c.preds.len());
            let pr = &mut out.preds[i];
            if pr.edges.is_empty() {
                return None;
            }
            let ei = *v as usize % pr.edges.len();
            pr.edges[ei] = pr.edges[ei].wrapping_add(1 + (*v >> 8));
        }
        Perturb::SaltBit(b) => out.salt[(*b / 8) as usize] ^= 1 << (*b % 8),
        Perturb::DropPred(pi) => {
            if c.preds.is_empty() {
                return None;
            }
            out.preds.remove(gen::pick_ix(*pi, c.preds.len()));
        }
        Perturb::DupPred(pi) => {
            if c.preds.is_empty() || c.preds.len() >= 100 {
                return None;
            }
            let x = c.preds[gen::pick_ix(*pi, c.preds.len())].clone();
            out.preds.push(x);
        }
        Perturb::ExtraEdge(e) => {
            if c.preds.is_empty() {
                return None;
            }
            if out.preds[0].edges.len() >= 1000 {
                return None;
            }
            out.preds[0].edges.push(*e);
        }
    }
    Some(out)
}

fn oracle_contract(cc: &ContractCase, obs: &mut Obs) -> Result<(), Violation> {
    let c = &cc.c;
    if c.preds.iter().any(|p| !within_limits(p)) {
        obs.skip("predicate beyond the limits");
        return Ok(());
    }
    for p in &c.preds {
        check_pred(p, obs)?;
    }
    let real = c.to_real();
    let want = sha256(&ref_contract_prehash(c));
    let a = no_panic("content_addr(contract)", || content_addr(&real))?;
    ensure!(a.0 == want, "addr:contract-address", "content_addr(contract) is not sha256(sorted predicate addresses ++ salt) ({} predicates)", c.preds.len());
    // helpers agree
    let addrs: Vec<ContentAddress> = c.preds.iter().map(|p| ContentAddress(ref_pred_addr(p))).collect();
    ensure!(contract_addr::from_contract(&real) == a, "addr:helper-disagrees", "contract_addr::from_contract disagrees with content_addr");
    ensure!(contract_addr::from_predicate_addrs(addrs.clone(), &c.salt) == a, "addr:helper-disagrees", "contract_addr::from_predicate_addrs disagrees with content_addr ({} predicates)", c.preds.len());
    let mut slice = addrs.clone();
    ensure!(contract_addr::from_predicate_addrs_slice(&mut slice, &c.salt) == a, "addr:helper-disagrees", "contract_addr::from_predicate_addrs_slice disagrees with content_addr");
    ensure!(real.content_address() == a, "addr:trait-disagrees", "Address::content_address disagrees for a contract");
    // order independence
    let mut shuffled = c.clone();
    shuffled.preds = shuffle(&c.preds, &cc.perm);
    let a2 = content_addr(&shuffled.to_real());
    ensure!(a2 == a, "addr:contract-order", "contract address depends on the order of its predicates");
    // any change of the value changes the hashed bytes (and the address)
    if let Some(changed) = perturb_contract(c, &cc.perturb) {
        let mut m1 = c.preds.clone();
        let mut m2 = changed.preds.clone();
        m1.sort();
        m2.sort();
        if (m1 != m2 || c.salt != changed.salt) && changed.preds.iter().all(within_limits) {
            let b = content_addr(&changed.to_real());
            ensure!(
                ref_contract_prehash(c) != ref_contract_prehash(&changed),
                "harness:prehash-collision",
                "reference pre-hash bytes collide"
            );
            ensure!(b != a, "addr:perturbation-ignored", "changing the contract ({:?}) does not change its address", cc.perturb);
            obs.label("perturbed");
            obs.nontrivial_if(!c.preds.is_empty());
        }
    }
    if c.preds.len() >= 2 {
        obs.nontrivial();
        obs.label(">=2 predicates");
    }
    if c.preds.iter().any(|p| ref_pred_bytes(p).len() > 1024) {
        obs.label("encoding>1KiB");
    }
    if c.preds.iter().any(|p| p.edges.len() == 1000 || p.nodes.len() == 1000) {
        obs.label("at-limit");
    }
    Ok(())
}

fn contract_case() -> impl Strategy<Value = ContractCase> {
    let perturb = prop_oneof![
        1 => Just(Perturb::None),
        4 => (any::<u32>(), any::<u8>(), any::<u8>()).prop_map(|(a, b, c)| Perturb::NodeByte(a, b, c)),
        2 => (any::<u32>(), any::<u16>()).prop_map(|(a, b)| Perturb::EdgeStart(a, b)),
        2 => (any::<u32>(), any::<u16>(), any::<u8>()).prop_map(|(a, b, c)| Perturb::EdgeStartTo(a, b, c)),
        2 => (any::<u32>(), any::<u16>()).prop_map(|(a, b)| Perturb::Edge(a, b)),
        2 => any::<u8>().prop_map(Perturb::SaltBit),
        1 => any::<u32>().prop_map(Perturb::DropPred),
        2 => any::<u32>().prop_map(Perturb::DupPred),
        1 => any::<u16>().prop_map(Perturb::ExtraEdge),
    ];
    (values::contract(), proptest::collection::vec(any::<u32>(), 0..8), perturb).prop_map(|(c, perm, perturb)| ContractCase { c, perm, perturb })
}

#[derive(Clone, Debug, Hash, Serialize, Deserialize)]
pub struct SetCase {
    pub sols: Vec<MSolution>,
    pub perm: Vec<u32>,
    /// (solution, which field, index, delta)
    pub perturb: Option<(u32, u8, u32, i64)>,
}

fn perturb_solution(s: &MSolution, which: u8, ix: u32, delta: i64) -> MSolution {
    let mut o = s.clone();
    let d = if delta == 0 { 1 } else { delta };
    match which % 6 {
        0 => o.contract[ix as usize % 32] ^= 1,
        1 => o.predicate[ix as usize % 32] ^= 1,
        2 => {
            // a data word, or a new slot
            if let Some(slot) = o.data.iter_mut().find(|x| !x.is_empty()) {
                let i = ix as usize % slot.len();
                slot[i] = slot[i].wrapping_add(d);
            } else {
                o.data.push(vec![d]);
            }
        }
        3 => {
            // move a slot boundary: [[a,b]] -> [[a],[b]]
            if let Some(k) = o.data.iter().position(|x| x.len() >= 2) {
                let t = o.data[k].split_off(1);
                o.data.insert(k + 1, t);
            } else {
                o.data.push(vec![]);
            }
        }
        4 => {
            if let Some(m) = o.mutations.first_mut() {
                m.1.push(d);
            } else {
                o.mutations.push((vec![], vec![]));
            }
        }
        _ => {
            // move a word from key to value
            if let Some(m) = o.mutations.iter_mut().find(|m| !m.0.is_empty()) {
                let w = m.0.pop().unwrap();
                m.1.insert(0, w);
            } else {
                o.mutations.push((vec![d], vec![]));
            }
        }
    }
    o
}

fn oracle_set(sc: &SetCase, obs: &mut Obs) -> Result<(), Violation> {
    for s in &sc.sols {
        let real = to_real_solution(s);
        let want = ref_solution_bytes(s);
        let ser = no_panic("serialize(solution)", || essential_hash::serialize(&real))?;
        ensure!(ser == want, "addr:solution-bytes", "pre-hash bytes of a solution differ from postcard's documented wire format: first difference at {:?}", ser.iter().zip(&want).position(|(a, b)| a != b));
        let a = content_addr(&real);
        ensure!(a.0 == sha256(&want), "addr:solution-address", "content_addr(solution) is not sha256(postcard(solution))");
        ensure!(essential_hash::hash(&real) == a.0, "addr:helper-disagrees", "hash(&solution) disagrees with content_addr");
        ensure!(real.content_address() == a, "addr:trait-disagrees", "Address::content_address disagrees for a solution");
        // injective: the bytes decode back to exactly this solution
        let back = codec::unpostcard_solution(&want).ok_or_else(|| viol!("harness:postcard", "reference postcard decoder failed"))?;
        ensure!(
            back == (s.contract, s.predicate, s.data.clone(), s.mutations.clone()),
            "harness:postcard-roundtrip",
            "reference postcard round trip failed"
        );
    }
    let set = SolutionSet {
        solutions: sc.sols.iter().map(to_real_solution).collect(),
    };
    let a = no_panic("content_addr(set)", || content_addr(&set))?;
    ensure!(a.0 == sha256(&ref_set_prehash(&sc.sols)), "addr:set-address", "content_addr(set) is not sha256(sorted solution addresses) ({} solutions)", sc.sols.len());
    let addrs: Vec<ContentAddress> = sc.sols.iter().map(|s| ContentAddress(sha256(&ref_solution_bytes(s)))).collect();
    ensure!(solution_set_addr::from_set(&set) == a, "addr:helper-disagrees", "solution_set_addr::from_set disagrees");
    ensure!(solution_set_addr::from_solution_addrs(addrs.clone()) == a, "addr:helper-disagrees", "solution_set_addr::from_solution_addrs disagrees ({} solutions)", sc.sols.len());
    let mut sl = addrs.clone();
    ensure!(solution_set_addr::from_solution_addrs_slice(&mut sl) == a, "addr:helper-disagrees", "solution_set_addr::from_solution_addrs_slice disagrees");
    ensure!(set.content_address() == a, "addr:trait-disagrees", "Address::content_address disagrees for a set");
    let shuffled = SolutionSet {
        solutions: shuffle(&set.solutions, &sc.perm),
    };
    ensure!(content_addr(&shuffled) == a, "addr:set-order", "set address depends on the order of its solutions");
    if let (Some((si, which, ix, delta)), false) = (sc.perturb, sc.sols.is_empty()) {
        let i = gen::pick_ix(si, sc.sols.len());
        let changed = perturb_solution(&sc.sols[i], which, ix, delta);
        if changed != sc.sols[i] {
            let ca = content_addr(&to_real_solution(&changed));
            ensure!(ref_solution_bytes(&changed) != ref_solution_bytes(&sc.sols[i]), "harness:prehash-collision", "reference bytes collide");
            ensure!(ca.0 != sha256(&ref_solution_bytes(&sc.sols[i])), "addr:perturbation-ignored", "changing a solution (field {which}) does not change its address");
            let mut sols2 = sc.sols.clone();
            sols2[i] = changed;
            let mut m1 = sc.sols.clone();
            let mut m2 = sols2.clone();
            let key = |s: &MSolution| ref_solution_bytes(s);
            m1.sort_by_key(key);
            m2.sort_by_key(key);
            if m1 != m2 {
                let set2 = SolutionSet {
                    solutions: sols2.iter().map(to_real_solution).collect(),
                };
                ensure!(content_addr(&set2) != a, "addr:perturbation-ignored", "changing a solution of the set does not change the set address");
            }
            obs.label("perturbed");
        }
    }
    obs.nontrivial_if(sc.sols.len() >= 2 || sc.sols.iter().any(|s| !s.data.is_empty() || !s.mutations.is_empty()));
    Ok(())
}

fn set_case() -> impl Strategy<Value = SetCase> {
    (values::solutions(5), proptest::collection::vec(any::<u32>(), 0..6), proptest::option::weighted(0.7, (any::<u32>(), any::<u8>(), any::<u32>(), -3i64..4))).prop_map(|(sols, perm, perturb)| SetCase { sols, perm, perturb })
}

#[derive(Clone, Debug, Hash, Serialize, Deserialize)]
pub struct ProgCase(pub Vec<u8>, pub Option<(u32, u8)>);

fn oracle_program(pc: &ProgCase, obs: &mut Obs) -> Result<(), Violation> {
    let p = Program(pc.0.clone());
    let a = content_addr(&p);
    ensure!(a.0 == sha256(&pc.0), "addr:program-address", "content_addr(program) is not the SHA-256 of its bytes");
    ensure!(p.content_address() == a, "addr:trait-disagrees", "trait disagrees for a program");
    // the generic hashing helpers
    ensure!(essential_hash::hash_bytes(&pc.0) == sha256(&pc.0), "addr:hash-bytes", "hash_bytes is not SHA-256");
    let cut = pc.0.len() / 3;
    let chunks: Vec<&[u8]> = vec![&pc.0[..cut], &pc.0[cut..cut], &pc.0[cut..]];
    ensure!(essential_hash::hash_bytes_iter(chunks) == sha256(&pc.0), "addr:hash-bytes-iter", "hash_bytes_iter over chunks differs from hashing the concatenation");
    if pc.0.len() % 8 == 0 {
        let words = crate::model::vm::bytes_to_words(&pc.0);
        ensure!(essential_hash::hash_words(&words) == sha256(&pc.0), "addr:hash-words", "hash_words is not SHA-256 of the big-endian bytes");
    }
    if let (Some((pos, x)), false) = (pc.1, pc.0.is_empty()) {
        let mut b = pc.0.clone();
        let i = gen::pick_ix(pos, b.len());
        b[i] ^= x | 1;
        ensure!(content_addr(&Program(b)) != a, "addr:perturbation-ignored", "changing a program byte does not change its address");
    }
    obs.nontrivial_if(!pc.0.is_empty());
    Ok(())
}

/// Every single-byte change of a (multi-KiB) predicate, every salt bit: the address changes each time.
#[derive(Clone, Debug, Hash, Serialize, Deserialize)]
pub struct ExhaustivePerturb(pub PredM, pub [u8; 32]);

fn oracle_exhaustive_perturb(c: &ExhaustivePerturb, obs: &mut Obs) -> Result<(), Violation> {
    let base = content_addr(&c.0.to_real());
    let contract0 = ContractM {
        preds: vec![c.0.clone()],
        salt: c.1,
    };
    let cbase = content_addr(&contract0.to_real());
    let mut n = 0u64;
    for ni in 0..c.0.nodes.len() {
        for bi in 0..34 {
            let mut p = c.0.clone();
            if bi < 32 {
                p.nodes[ni].1[bi] ^= 0x10;
            } else if bi == 32 {
                p.nodes[ni].0 ^= 1;
            } else {
                p.nodes[ni].0 ^= 0x100;
            }
            let a = content_addr(&p.to_real());
            ensure!(a != base, "addr:perturbation-ignored", "byte {bi} of node {ni} does not influence the predicate address ({} nodes)", c.0.nodes.len());
            n += 1;
        }
    }
    for ei in 0..c.0.edges.len() {
        for bit in [0u16, 8] {
            let mut p = c.0.clone();
            p.edges[ei] ^= 1 << bit;
            ensure!(content_addr(&p.to_real()) != base, "addr:perturbation-ignored", "edge {ei} does not influence the predicate address");
            n += 1;
        }
    }
    for bit in 0..256usize {
        let mut cc = contract0.clone();
        cc.salt[bit / 8] ^= 1 << (bit % 8);
        ensure!(content_addr(&cc.to_real()) != cbase, "addr:perturbation-ignored", "salt bit {bit} does not influence the contract address");
        n += 1;
    }
    obs.extra_evals += n;
    obs.nontrivial();
    Ok(())
}

fn exhaustive_small(_t: Tier) -> Box<dyn Iterator<Item = Vec<PredM>>> {
    // all predicates with <= 2 nodes and <= 2 edges over 3 values per field, in batches
    let vals16 = [0u16, 1, u16::MAX];
    let addrs = [[0u8; 32], [1u8; 32], {
        let mut a = [0u8; 32];
        a[31] = 1;
        a
    }];
    let mut node_opts = vec![];
    for e in vals16 {
        for a in addrs {
            node_opts.push((e, a));
        }
    }
    let mut node_lists: Vec<Vec<(u16, [u8; 32])>> = vec![vec![]];
    for a in &node_opts {
        node_lists.push(vec![*a]);
        for b in &node_opts {
            node_lists.push(vec![*a, *b]);
        }
    }
    let mut edge_lists: Vec<Vec<u16>> = vec![vec![]];
    for a in vals16 {
        edge_lists.push(vec![a]);
        for b in vals16 {
            edge_lists.push(vec![a, b]);
        }
    }
    let mut all = Vec::new();
    for n in &node_lists {
        for e in &edge_lists {
            all.push(PredM { nodes: n.clone(), edges: e.clone() });
        }
    }
    // one case = the whole universe chunked (pairwise distinctness is checked inside a chunk and across via the address set)
    Box::new(std::iter::once(all))
}

fn oracle_injective_small(all: &Vec<PredM>, obs: &mut Obs) -> Result<(), Violation> {
    let mut seen_bytes = std::collections::HashMap::new();
    let mut seen_addr = std::collections::HashMap::new();
    for p in all {
        let real = p.to_real();
        let enc: Vec<u8> = real.encode().map_err(|e| viol!("addr:encode-fails", "{e:?}"))?.collect();
        if let Some(q) = seen_bytes.insert(enc, p.clone()) {
            return Err(viol!("addr:not-injective", "two distinct predicates have the same encoding: {q:?} and {p:?}"));
        }
        if let Some(q) = seen_addr.insert(content_addr(&real), p.clone()) {
            return Err(viol!("addr:not-injective", "two distinct predicates have the same address: {q:?} and {p:?}"));
        }
    }
    obs.extra_evals += all.len() as u64;
    obs.nontrivial();
    Ok(())
}

/// The address-from-addresses helpers on arbitrary address lists (shared prefixes, repeats, any order).
#[derive(Clone, Debug, Hash, Serialize, Deserialize)]
pub struct AddrList {
    pub addrs: Vec<[u8; 32]>,
    pub salt: [u8; 32],
}

fn oracle_addr_list(c: &AddrList, obs: &mut Obs) -> Result<(), Violation> {
    let mut sorted = c.addrs.clone();
    sorted.sort();
    let mut pre: Vec<u8> = sorted.iter().flatten().copied().collect();
    let set_want = sha256(&pre);
    pre.extend_from_slice(&c.salt);
    let contract_want = sha256(&pre);
    let list: Vec<ContentAddress> = c.addrs.iter().map(|a| ContentAddress(*a)).collect();
    ensure!(
        contract_addr::from_predicate_addrs(list.clone(), &c.salt).0 == contract_want,
        "addr:from-addrs",
        "from_predicate_addrs is not sha256(sorted addresses ++ salt) for {} addresses",
        c.addrs.len()
    );
    let mut sl = list.clone();
    ensure!(
        contract_addr::from_predicate_addrs_slice(&mut sl, &c.salt).0 == contract_want,
        "addr:from-addrs",
        "from_predicate_addrs_slice is not sha256(sorted addresses ++ salt)"
    );
    ensure!(sl.iter().map(|a| a.0).collect::<Vec<_>>() == sorted, "addr:slice-not-sorted", "from_predicate_addrs_slice does not leave the slice sorted");
    ensure!(
        solution_set_addr::from_solution_addrs(list.clone()).0 == set_want,
        "addr:from-addrs",
        "from_solution_addrs is not sha256(sorted addresses) for {} addresses",
        c.addrs.len()
    );
    let mut sl = list;
    ensure!(solution_set_addr::from_solution_addrs_slice(&mut sl).0 == set_want, "addr:from-addrs", "from_solution_addrs_slice is not sha256(sorted addresses)");
    ensure!(sl.iter().map(|a| a.0).collect::<Vec<_>>() == sorted, "addr:slice-not-sorted", "from_solution_addrs_slice does not leave the slice sorted");
    obs.nontrivial_if(c.addrs.len() >= 2);
    Ok(())
}

fn addr_list() -> impl Strategy<Value = AddrList> {
    // addresses that share long prefixes / suffixes, repeats, and random ones
    let addr = proptest::strategy::Union::new_weighted(vec![
        (3, (any::<u8>(), 0usize..32, any::<u8>()).prop_map(|(fill, pos, x)| {
            let mut a = [fill % 3; 32];
            a[pos] = x;
            a
        }).boxed()),
        (1, gen::bytes32().boxed()),
        (1, prop_oneof![Just([0u8; 32]), Just([0xffu8; 32])].boxed()),
    ]);
    let len = prop_oneof![8 => 0usize..8, 1 => 30usize..35, 1 => 62usize..67, 1 => 98usize..102, 1 => 8usize..130];
    (len.prop_flat_map(move |n| proptest::collection::vec(addr.clone(), n)), gen::bytes32()).prop_map(|(addrs, salt)| AddrList { addrs, salt })
}

pub fn property() -> Property {
    Property {
        id: "C17",
        rule: "generated predicates (0..8 nodes/edges, 25..70 nodes = encodings beyond 1 KiB, 999/1000 nodes and edges), programs, contracts (0..20 predicates incl. repeated ones, salts incl. all-zero), solutions and sets (incl. repeated solutions), each with a permutation and a single-field perturbation (one address byte / edge_start / edge / salt bit, predicate dropped / repeated, extra edge; contract / predicate byte, data word, slot boundary [[a,b]] vs [[a],[b]], value grown, word moved from key to value); exhaustive: every single-byte change of multi-KiB predicates and every salt bit, all 1,300 predicates with <= 2 nodes and <= 2 edges over 3 values per field pairwise. Oracle: address == sha256(RefCodec bytes) (documented predicate layout / raw program bytes / sorted member addresses ++ salt / hand-written postcard of a solution / sorted solution addresses); RefCodec bytes decode back to the value; permutation => equal address; perturbation => different bytes and address; encoded_size == actual length; all helper constructors and the trait agree. Non-trivial = value with >= 2 members or non-empty content under a permutation / perturbation / pairwise comparison.",
        assumptions: vec!["SHA-256 collisions are ignored (2^-128)", "predicates beyond 1000 nodes/edges have no defined address (skipped)"],
        health: vec![("addr.contract", "encoding>1KiB", 15), ("addr.contract", "perturbed", 300)],
        subs: vec![
            prop_sub("addr.contract", 96_000, 768_000, |_| contract_case(), oracle_contract),
            prop_sub("addr.solution_set", 120_000, 960_000, |_| set_case(), oracle_set),
            prop_sub(
                "addr.program",
                40_000,
                320_000,
                |_| (proptest::collection::vec(any::<u8>(), 0..200), proptest::option::of((any::<u32>(), any::<u8>())), any::<bool>()).prop_map(|(mut b, p, round)| {
                    if round {
                        b.truncate(b.len() / 8 * 8);
                    }
                    ProgCase(b, p)
                }),
                oracle_program,
            ),
            prop_sub(
                "addr.perturb_exhaustive",
                192,
                1_536,
                |_| (values::pred_sized(28usize..100, 0usize..60), gen::bytes32()).prop_map(|(p, s)| ExhaustivePerturb(p, s)),
                oracle_exhaustive_perturb,
            ),
            enum_sub("addr.injective_small", exhaustive_small, oracle_injective_small).shards(1),
            prop_sub("addr.from_address_lists", 60_000, 500_000, |_| addr_list(), oracle_addr_list),
        ],
    }
}
