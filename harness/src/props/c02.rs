//! C02 — Validation is deterministic under any thread schedule and pool size.

use crate::chk::{build_world, compare, run_real, RealRun, RunEnv, TRACE};
use crate::doubles::{AuditGas, DelayTable, Log, StErr, Views};
use crate::engine::{no_panic, prop_sub, Obs, Property, Violation};
use crate::gen::graphs::{build_case, GraphCfg};
use crate::model::graph::{GraphCase, RefRun, RefTrace, RefVerdict};
use crate::model::ops::MOp::*;
use crate::real::{to_real_ops, to_real_solutions, vm_state, ExecCase};
use crate::{ensure, viol};
use essential_vm::{Access, GasLimit};
use proptest::prelude::*;
use serde::{Deserialize, Serialize};
use std::sync::{Arc, OnceLock};

pub const POOL_SIZES: [usize; 6] = [1, 2, 3, 4, 8, 16];

pub fn pools() -> &'static Vec<rayon::ThreadPool> {
    static P: OnceLock<Vec<rayon::ThreadPool>> = OnceLock::new();
    P.get_or_init(|| {
        POOL_SIZES
            .iter()
            .map(|n| rayon::ThreadPoolBuilder::new().num_threads(*n).build().expect("thread pool"))
            .collect()
    })
}

#[derive(Clone, Debug, Hash, Serialize, Deserialize)]
pub struct SchedCase {
    pub case: GraphCase,
    pub salts: [u64; 3],
    pub max_spin: u64,
}

fn trace_order(log: &Log) -> Vec<(i64, i64)> {
    let mut r: Vec<_> = log.reqs.lock().unwrap().iter().filter(|r| r.key.len() == 3 && r.key[0] == TRACE).map(|r| (r.seq, r.key[1], r.key[2])).collect();
    r.sort();
    r.into_iter().map(|(_, n, t)| (n, t)).collect()
}

fn oracle_check(sc: &SchedCase, obs: &mut Obs) -> Result<(), Violation> {
    let case = &sc.case;
    let world = build_world(case);
    let rr = RefRun::new(case, world.pred_addr.clone());
    let mut trace = RefTrace::default();
    let verdict = rr.evaluate(&mut trace);
    if let RefVerdict::Unspecified(r) = &verdict {
        obs.skip(r);
        return Ok(());
    }
    let mut first: Option<(usize, u64, RealRun)> = None;
    let mut orders: Vec<Vec<(i64, i64)>> = Vec::new();
    let mut runs = 0u64;
    for (pi, pool) in pools().iter().enumerate() {
        for salt in sc.salts {
            let log = Arc::new(Log::default());
            let env = RunEnv {
                log: Some(log.clone()),
                delay: Some(DelayTable { salt, max_spin: sc.max_spin }),
            };
            let run = pool.install(|| run_real(case, &world, &env))?;
            runs += 1;
            orders.push(trace_order(&log));
            match &first {
                None => {
                    // the sequential reference first
                    compare(case, &verdict, &trace, &run)?;
                    first = Some((POOL_SIZES[pi], salt, run));
                }
                Some((p0, s0, r0)) => {
                    ensure!(
                        *r0 == run,
                        "sched:result-differs",
                        "result with {} threads / delay salt {salt} differs from {p0} threads / salt {s0}:\n{run:?}\nvs\n{r0:?}",
                        POOL_SIZES[pi]
                    );
                }
            }
        }
    }
    obs.extra_evals += runs.saturating_sub(1);
    let distinct_orders = {
        let mut o = orders.clone();
        o.sort();
        o.dedup();
        o.len()
    };
    if distinct_orders >= 2 {
        obs.label("observed-different-interleavings");
    }
    let parallelism = case.solutions.len() >= 2
        || rr.analyses.iter().any(|a| {
            a.as_ref()
                .map(|a| {
                    let mut per_level = std::collections::BTreeMap::new();
                    for l in &a.level {
                        *per_level.entry(*l).or_insert(0usize) += 1;
                    }
                    per_level.values().any(|c| *c >= 2)
                })
                .unwrap_or(false)
        });
    if matches!(verdict, RefVerdict::Ok { .. }) {
        obs.label("verdict-ok");
    }
    obs.nontrivial_if(parallelism && distinct_orders >= 2);
    Ok(())
}

fn sched_case() -> impl Strategy<Value = SchedCase> {
    let cfg = GraphCfg {
        max_nodes: 9,
        max_solutions: 5,
        post_weight: 3,
        corrupt_pct: 2,
        dangling_pct: 0,
        ..Default::default()
    };
    (proptest::collection::vec(any::<u32>(), 60..900), any::<[u64; 3]>(), prop_oneof![Just(0u64), Just(2_000u64), Just(30_000u64), Just(150_000u64)], 0u8..7).prop_map(move |(c, salts, max_spin, family)| SchedCase {
        // 2/7: wide levels with several failing sibling nodes; 1/7: colliding computed mutations of unequal size
        case: match family {
            0 | 1 => crate::gen::graphs::build_wide_case(c),
            2 => crate::gen::graphs::build_mutation_race_case(c),
            _ => build_case(c, &cfg),
        },
        salts,
        max_spin: if family <= 1 { max_spin.max(30_000) } else { max_spin },
    })
}

#[derive(Clone, Debug, Hash, Serialize, Deserialize)]
pub struct VmSchedCase {
    pub case: ExecCase,
    pub salts: [u64; 2],
    pub max_spin: u64,
}

type VmOutcome = (Result<u64, (usize, bool)>, crate::model::vm::MState);

fn run_vm(case: &ExecCase, delay: DelayTable) -> Result<VmOutcome, Violation> {
    let Some(mut vm) = case.make_vm() else {
        return Err(viol!("harness:unreachable-init", "init"));
    };
    let ops = to_real_ops(&case.prog);
    let sols = Arc::new(to_real_solutions(&case.solutions));
    let mut views = Views::from_spec(&case.state, None);
    views.pre.delay = Some(delay.clone());
    views.post.delay = Some(delay.clone());
    let mut gas = AuditGas::new(case.costs.clone());
    gas.delay = Some(delay);
    let limit = GasLimit {
        per_yield: GasLimit::DEFAULT_PER_YIELD,
        total: case.limit,
    };
    let r = no_panic("Vm::exec_ops", || vm.exec_ops(&ops, Access::new(sols, case.index as u16), &views, &gas, limit))?;
    let r = match r {
        Ok(g) => Ok(g),
        Err(essential_vm::error::ExecError(ix, e)) => {
            let class = crate::real::classify(&e, |s: &StErr| s.0.clone());
            let oog = matches!(class, crate::real::RealErr::OutOfGas { .. } | crate::real::RealErr::OutOfGasInCompute);
            Err((ix, oog))
        }
    };
    Ok((r, vm_state(&vm)))
}

fn oracle_vm(sc: &VmSchedCase, obs: &mut Obs) -> Result<(), Violation> {
    let case = &sc.case;
    // termination / breadth pre-screen and the sequential expectation
    let (mr, mstate, _, _) = crate::real::run_model(case, 30_000, 64);
    use crate::model::vm::RunResult;
    if matches!(mr, RunResult::OverBudget | RunResult::ExcludedBreadth | RunResult::Unspec(_)) {
        obs.skip("over budget / unspecified");
        return Ok(());
    }
    let mut first: Option<VmOutcome> = None;
    let mut runs = 0;
    for (pi, pool) in pools().iter().enumerate() {
        if POOL_SIZES[pi] == 3 || POOL_SIZES[pi] == 8 {
            continue;
        }
        for salt in sc.salts {
            let out = pool.install(|| run_vm(case, DelayTable { salt, max_spin: sc.max_spin }))?;
            runs += 1;
            match &first {
                None => {
                    // equals the sequential evaluation
                    match (&mr, &out.0) {
                        (RunResult::Ok { gas, .. }, Ok(g)) => {
                            ensure!(g == gas, "sched:vm-gas", "gas {g}, sequential evaluation gives {gas}");
                            ensure!(out.1 == mstate, "sched:vm-state", "final state differs from the sequential evaluation");
                        }
                        (RunResult::Err { index, .. }, Err((ix, _))) => ensure!(ix == index, "sched:vm-error-index", "error at {ix}, sequential evaluation fails at {index}"),
                        (a, b) => return Err(viol!("sched:vm-verdict", "VM: {b:?}, sequential evaluation: {a:?}")),
                    }
                    first = Some(out);
                }
                Some(f) => {
                    // on errors only the failing index and the out-of-gas-or-not class are compared
                    let same = match (&f.0, &out.0) {
                        (Ok(a), Ok(b)) => a == b && f.1 == out.1,
                        (Err(a), Err(b)) => a.0 == b.0,
                        _ => false,
                    };
                    ensure!(
                        same,
                        "sched:vm-result-differs",
                        "{} threads / salt {salt}: {:?} (pc {}, mem {}) vs first run {:?} (pc {}, mem {})",
                        POOL_SIZES[pi],
                        out.0,
                        out.1.pc,
                        out.1.memory.len(),
                        f.0,
                        f.1.pc,
                        f.1.memory.len()
                    );
                }
            }
        }
    }
    obs.extra_evals += runs - 1;
    let breadth2 = case.prog.windows(2).any(|w| matches!((w[0], w[1]), (PUSH(n), COM) if n >= 2));
    obs.nontrivial_if(breadth2 && sc.max_spin > 0);
    if out_ok(&first) {
        obs.label("ok");
    }
    Ok(())
}

fn out_ok(f: &Option<VmOutcome>) -> bool {
    matches!(f, Some((Ok(_), _)))
}

fn vm_sched_case() -> impl Strategy<Value = VmSchedCase> {
    use crate::gen::programs;
    let prog = (programs::compute_block(programs::StructCfg::default()), any::<bool>(), any::<[u8; 32]>()).prop_map(|(mut block, pex, h)| {
        if pex {
            // children race on the lazily initialised PredicateExists cache
            let mut ins = vec![];
            ins.extend(crate::model::vm::bytes_to_words(&h).into_iter().map(PUSH));
            ins.extend([PEX, POP]);
            for (i, op) in ins.into_iter().enumerate() {
                block.insert(2 + i, op);
            }
        }
        // a few parent words that the children inherit (and may overwrite in their own copies)
        let mut v = vec![PUSH(48), ALOC, POP, PUSH(11), PUSH(22), PUSH(33)];
        v.extend(block);
        v
    });
    (prog, any::<[u64; 2]>(), prop_oneof![Just(0u64), Just(3_000u64), Just(40_000u64)]).prop_map(|(prog, salts, max_spin)| VmSchedCase {
        case: crate::props::c08::program_case(prog),
        salts,
        max_spin,
    })
}

pub fn property() -> Property {
    Property {
        id: "C02",
        rule: "generated checker cases (as C01/C03: graphs with several nodes per level, 1..5 solutions, computed mutations, post reads, failing nodes) and Compute programs (as C10, plus PredicateExists inside children racing on the shared lazy cache), each paired with delay tables: every state read and every gas-cost callback spins for a case-determined pseudo-random time (0 / up to 2k / 30k / 150k iterations) keyed by the request, which reorders task completion. Each case runs in pre-built rayon pools of 1,2,3,4,8,16 threads x 3 delay tables (VM cases: 1,2,4,16 x 2); all results must be equal as values (Ok/Err, failing solution and node indices, gas, data outputs, returned set incl. mutation order) and equal to RefGraph's / RefVm's sequential evaluation. Non-trivial = the case has tasks that can overlap (>= 2 solutions, a level with >= 2 nodes, breadth >= 2) and at least two of its runs were observed to execute their programs in different orders (measured from the recorded trace reads).",
        assumptions: vec![
            "the harness steers completion order only at state reads and gas callbacks; rayon's own scheduler is not owned, so an order dependence that needs a specific work-stealing pattern between two callbacks can be missed",
            "for a failing Compute only the failing op index and out-of-gas-or-not are compared (which child's error is wrapped may depend on arrival order)",
        ],
        health: vec![("sched.check_pools", "observed-different-interleavings", 300)],
        subs: vec![
            prop_sub("sched.check_pools", 3_600, 40_000, |_| sched_case(), oracle_check).shards(8),
            prop_sub("sched.vm_compute_pools", 4_500, 50_000, |_| vm_sched_case(), oracle_vm).shards(8),
        ],
    }
}
