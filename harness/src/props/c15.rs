//! C15 — Effect analysis reports exactly the effects a program contains.

use crate::engine::{prop_sub, Obs, Property, Violation};
use crate::gen;
use crate::model::asm as refasm;
use crate::model::ops::MOp::{self, *};
use crate::{ensure, viol};
use essential_asm::effects::{analyze, bytes_contains_any, Effects};
use proptest::prelude::*;
use serde::{Deserialize, Serialize};

#[derive(Clone, Debug, Hash, Serialize, Deserialize)]
pub struct ProgCase(pub Vec<MOp>);

/// Bit assignment as documented on `Effects`.
fn effect_bit(op: &MOp) -> u8 {
    match op {
        KRNG => 1 << 0,
        KREX => 1 << 1,
        THIS => 1 << 2,
        THISC => 1 << 3,
        PKRNG => 1 << 4,
        PKREX => 1 << 5,
        _ => 0,
    }
}

const EFFECT_OPS: [MOp; 6] = [KRNG, KREX, THIS, THISC, PKRNG, PKREX];

fn flags(bits: u8) -> Effects {
    let mut e = Effects::empty();
    let all = [
        Effects::KeyRange,
        Effects::KeyRangeExtern,
        Effects::ThisAddress,
        Effects::ThisContractAddress,
        Effects::PostKeyRange,
        Effects::PostKeyRangeExtern,
    ];
    for (i, f) in all.iter().enumerate() {
        if bits & (1 << i) != 0 {
            e |= *f;
        }
    }
    e
}

fn oracle(c: &ProgCase, obs: &mut Obs) -> Result<(), Violation> {
    let bytes = refasm::encode(&c.0);
    // expected set: fold over the program as decoded by the independent codec
    let (mops, _) = refasm::decode(&bytes).map_err(|e| viol!("harness:encode", "RefAsm cannot decode its own encoding: {e:?}"))?;
    let expected: u8 = mops.iter().fold(0, |a, o| a | effect_bit(o));
    for s in 0u8..64 {
        let got = bytes_contains_any(&bytes, flags(s));
        let want = expected & s != 0;
        ensure!(
            got == want,
            "eff:bytes",
            "bytes_contains_any(program, subset {s:#08b}) = {got}, the program's effects are {expected:#08b} (program {:?})",
            c.0
        );
    }
    let ops: Vec<essential_asm::Op> = c.0.iter().map(|m| m.to_real()).collect();
    let a = analyze(&ops);
    ensure!(
        a == flags(expected),
        "eff:analyze",
        "analyze = {a:?}, the program contains exactly {:?} (program {:?})",
        flags(expected),
        c.0
    );
    let imm_has_effect_byte = c.0.iter().any(|o| matches!(o, PUSH(w) if w.to_be_bytes().iter().any(|b| EFFECT_OPS.iter().any(|e| e.opcode() == *b) || *b == PUSH(0).opcode())));
    let effect_after_push = c.0.windows(2).any(|w| matches!(w[0], PUSH(_)) && effect_bit(&w[1]) != 0);
    if imm_has_effect_byte {
        obs.label("immediate-has-effect-byte");
    }
    if effect_after_push {
        obs.label("effect-after-push");
    }
    if bytes.len() > 64 && bytes.chunks(64).any(|b| !b.iter().any(|x| EFFECT_OPS.iter().any(|e| e.opcode() == *x))) {
        obs.label("long-with-effect-free-64-byte-block");
    }
    if expected.count_ones() >= 4 {
        obs.label(">=4 effects");
    }
    obs.nontrivial_if(imm_has_effect_byte || effect_after_push);
    Ok(())
}

/// Words whose bytes are effect opcodes / the Push opcode at chosen positions.
fn tricky_word() -> impl Strategy<Value = i64> {
    (proptest::collection::vec((0usize..8, 0usize..7), 1..4), any::<i64>(), any::<bool>()).prop_map(|(places, base, zero)| {
        let mut b = if zero { [0u8; 8] } else { base.to_be_bytes() };
        for (pos, which) in places {
            b[pos] = if which == 6 { PUSH(0).opcode() } else { EFFECT_OPS[which].opcode() };
        }
        i64::from_be_bytes(b)
    })
}

fn prog_case() -> impl Strategy<Value = ProgCase> {
    let op = prop_oneof![
        4 => (0usize..6).prop_map(|i| EFFECT_OPS[i]),
        4 => tricky_word().prop_map(PUSH),
        1 => gen::word().prop_map(PUSH),
        3 => gen::any_mop(),
    ];
    // long programs in which effect bytes are rare: whole stretches (blocks, words, cache lines) hold none of them, and
    // pushes of small words (whose immediates are 0x00/0x01 = the Push opcode itself) fall at every alignment
    let sparse_op = prop_oneof![
        12 => (0i64..3).prop_map(PUSH),
        12 => gen::any_mop().prop_map(|o| if effect_bit(&o) != 0 || matches!(o, PUSH(_)) { POP } else { o }),
        1 => (0usize..6).prop_map(|i| EFFECT_OPS[i]),
        1 => tricky_word().prop_map(PUSH),
    ];
    prop_oneof![
        4 => proptest::collection::vec(op, 0..24),
        3 => proptest::collection::vec(sparse_op, 0..160),
        // permutations / prefixes of the six effect ops with filler
        2 => (Just(EFFECT_OPS.to_vec()).prop_shuffle(), 0usize..7, proptest::collection::vec(tricky_word().prop_map(PUSH), 0..3)).prop_map(|(mut v, keep, fill)| {
            v.truncate(keep);
            let mut out = Vec::new();
            for (i, o) in v.into_iter().enumerate() {
                if let Some(f) = fill.get(i % fill.len().max(1)) {
                    if i % 2 == 0 {
                        out.push(*f);
                    }
                }
                out.push(o);
            }
            out
        }),
    ]
    .prop_map(ProgCase)
}

/// Programs around the sizes at which a size constant or an index width could matter (Program::MAX_SIZE = 10000, 2^16):
/// `pad` filler ops, then a few effect ops.
#[derive(Clone, Debug, Hash, Serialize, Deserialize)]
pub struct LongProg {
    pub pad: usize,
    pub push_filler: bool,
    pub tail: Vec<u8>,
}

fn oracle_long(l: &LongProg, obs: &mut Obs) -> Result<(), Violation> {
    let mut prog: Vec<MOp> = (0..l.pad).map(|i| if l.push_filler && i % 3 == 0 { PUSH(1) } else { POP }).collect();
    prog.extend(l.tail.iter().map(|i| EFFECT_OPS[*i as usize % 6]));
    oracle(&ProgCase(prog), obs)?;
    obs.label("long");
    obs.nontrivial();
    Ok(())
}

fn long_prog() -> impl Strategy<Value = LongProg> {
    (prop_oneof![4 => 9_990usize..10_010, 2 => 65_530usize..65_540, 1 => 0usize..70_000], any::<bool>(), proptest::collection::vec(0u8..6, 0..7))
        .prop_map(|(pad, push_filler, tail)| LongProg { pad, push_filler, tail })
}

pub fn property() -> Property {
    Property {
        id: "C15",
        rule: "generated well-formed programs over the full op set in which Push immediates carry each of the six effect opcodes and the Push opcode at every byte position, effect ops directly after a Push / at the start / at the end, shuffled prefixes of all six effect ops, and long programs (up to 160 ops, ~700 bytes) in which effect bytes are sparse so that Push immediates straddle every block boundary; plus programs of 9990..10010, ~2^16 and random up to 70000 filler ops followed by 0..6 effect ops; for each program all 64 effect subsets are queried (exhaustive per program). Oracle: the set folded over RefAsm's decoding of the bytes; bytes_contains_any(bytes,S) == (expected ∩ S != ∅) for all S, analyze(ops) == expected exactly. Non-trivial = an immediate contains an effect/Push opcode byte or an effect op follows a Push.",
        assumptions: vec!["effect flags are numbered as documented on `Effects` (KeyRange=1<<0 … PostKeyRangeExtern=1<<5)"],
        health: vec![("eff.all_subsets", "immediate-has-effect-byte", 300), ("eff.all_subsets", ">=4 effects", 50), ("eff.all_subsets", "long-with-effect-free-64-byte-block", 100)],
        subs: vec![prop_sub("eff.all_subsets", 900_000, 7_200_000, |_| prog_case(), |c: &ProgCase, obs| {
            let r = oracle(c, obs);
            obs.extra_evals += 64;
            r
        }),
        prop_sub("eff.long_programs", 320, 3_200, |_| long_prog(), |c: &LongProg, obs| {
            let r = oracle_long(c, obs);
            obs.extra_evals += 64;
            r
        })],
    }
}
