//! C13 — Bytecode encoding is a bijection that matches the assembly specification.

use crate::engine::{enum_sub, prop_sub, Obs, Property, Violation};
use crate::gen;
use crate::model::asm as refasm;
use crate::model::ops::{MOp, TABLE};
use crate::{ensure, viol};
use essential_asm as asm;
use essential_asm::{FromBytesError, Op, Opcode, ToOpcode};
use proptest::prelude::*;
use serde::{Deserialize, Serialize};

/// Compare the real parser with RefAsm on a byte string (both directions of the bijection).
/// Render a parse result so that different byte sources can be compared.
fn render(r: &Result<Vec<Op>, FromBytesError>) -> String {
    format!("{r:?}")
}

pub fn check_parse(bytes: &[u8], obs: &mut Obs) -> Result<(), Violation> {
    let real: Result<Vec<Op>, FromBytesError> = asm::from_bytes(bytes.iter().copied()).collect();
    // The parser accepts any byte iterator: the result must not depend on how the bytes are delivered
    // (exact-size slice iterator, owned Vec, iterators without a size hint, byte-at-a-time closures).
    let via_vec: Result<Vec<Op>, FromBytesError> = asm::from_bytes(bytes.to_vec()).collect();
    let via_filter: Result<Vec<Op>, FromBytesError> = asm::from_bytes(bytes.iter().copied().filter(|_| true)).collect();
    let mut i = 0usize;
    let via_fn: Result<Vec<Op>, FromBytesError> = asm::from_bytes(std::iter::from_fn(|| {
        let b = bytes.get(i).copied();
        i += 1;
        b
    }))
    .collect();
    for (what, other) in [("Vec<u8>", &via_vec), ("filter() iterator", &via_filter), ("from_fn iterator", &via_fn)] {
        ensure!(
            render(&real) == render(other),
            "asm:source-dependent",
            "parsing {bytes:02x?} from a slice iterator gives {}, from a {what} gives {}",
            render(&real),
            render(other)
        );
    }
    let model = refasm::decode(bytes);
    match (&real, &model) {
        (Ok(ops), Ok((mops, _))) => {
            let expect: Vec<Op> = mops.iter().map(|m| m.to_real()).collect();
            ensure!(
                *ops == expect,
                "asm:parse-differs",
                "from_bytes({bytes:02x?}) = {ops:?}, specification says {expect:?}"
            );
            let back: Vec<u8> = asm::to_bytes(ops.iter().copied()).collect();
            ensure!(
                back == bytes,
                "asm:not-unambiguous",
                "parse succeeded but to_bytes(from_bytes(b)) != b: {bytes:02x?} -> {back:02x?}"
            );
            if mops.iter().any(|m| matches!(m, MOp::PUSH(w) if w.to_be_bytes().iter().any(|b| MOp::from_opcode(*b).is_some()))) {
                obs.nontrivial();
                obs.label("push-contains-opcode-byte");
            }
            obs.label("valid");
        }
        (Err(e), Err(me)) => {
            match (e, me) {
                (FromBytesError::InvalidOpcode(asm::InvalidOpcodeError(b)), refasm::DecErr::InvalidOpcode(mb, _)) => {
                    ensure!(b == mb, "asm:wrong-invalid-byte", "invalid opcode error carries {b:#x}, expected {mb:#x} for {bytes:02x?}");
                    obs.label("invalid-opcode");
                }
                (FromBytesError::NotEnoughBytes(_), refasm::DecErr::NotEnoughBytes(_)) => {
                    obs.label("truncated");
                }
                _ => {
                    return Err(viol!(
                        "asm:error-kind",
                        "error kind differs for {bytes:02x?}: real {e:?}, specification {me:?}"
                    ))
                }
            }
            obs.nontrivial();
        }
        (Ok(ops), Err(me)) => {
            return Err(viol!("asm:accepts-invalid", "from_bytes accepted {bytes:02x?} as {ops:?}; specification says {me:?}"))
        }
        (Err(e), Ok((mops, _))) => {
            return Err(viol!("asm:rejects-valid", "from_bytes rejected {bytes:02x?} with {e:?}; specification parses {mops:?}"))
        }
    }
    Ok(())
}

pub fn check_roundtrip(mops: &[MOp], obs: &mut Obs) -> Result<(), Violation> {
    let ops: Vec<Op> = mops.iter().map(|m| m.to_real()).collect();
    let bytes: Vec<u8> = asm::to_bytes(ops.iter().copied()).collect();
    let expect = refasm::encode(mops);
    ensure!(
        bytes == expect,
        "asm:encode-differs",
        "to_bytes({ops:?}) = {bytes:02x?}, specification says {expect:02x?}"
    );
    // chained without an intermediate buffer
    let chained: Result<Vec<Op>, FromBytesError> = asm::from_bytes(asm::to_bytes(ops.iter().copied())).collect();
    match &chained {
        Ok(b) => ensure!(*b == ops, "asm:roundtrip", "from_bytes(to_bytes(ops)) (chained iterators) = {b:?} != {ops:?}"),
        Err(e) => return Err(viol!("asm:roundtrip", "from_bytes(to_bytes({ops:?})) (chained iterators) failed: {e:?}")),
    }
    let back: Result<Vec<Op>, _> = asm::from_bytes(bytes.iter().copied()).collect();
    match back {
        Ok(b) => ensure!(b == ops, "asm:roundtrip", "from_bytes(to_bytes(ops)) = {b:?} != {ops:?}"),
        Err(e) => return Err(viol!("asm:roundtrip", "from_bytes(to_bytes({ops:?})) failed: {e:?}")),
    }
    // Per-op byte iterators agree too.
    for (m, op) in mops.iter().zip(&ops) {
        use essential_asm::ToBytes;
        let ob: Vec<u8> = op.to_bytes().into_iter().collect();
        let mut eb = Vec::new();
        refasm::encode_op(m, &mut eb);
        ensure!(ob == eb, "asm:op-bytes", "{op:?}.to_bytes() = {ob:02x?}, expected {eb:02x?}");
        let oc: u8 = op.to_opcode().into();
        ensure!(oc == m.opcode(), "asm:to-opcode", "{op:?}.to_opcode() = {oc:#x}, expected {:#x}", m.opcode());
    }
    if mops.iter().any(|m| matches!(m, MOp::PUSH(w) if w.to_be_bytes().iter().any(|b| MOp::from_opcode(*b).is_some()))) {
        obs.nontrivial();
        obs.label("push-contains-opcode-byte");
    }
    Ok(())
}

#[derive(Clone, Debug, Hash, Serialize, Deserialize)]
pub struct ByteCase(pub u8);

#[derive(Clone, Debug, Hash, Serialize, Deserialize)]
pub struct PairCase {
    pub a: u8,
    pub b: u8,
    pub imm_a: i64,
    pub imm_b: i64,
}

#[derive(Clone, Debug, Hash, Serialize, Deserialize)]
pub struct OpsCase(pub Vec<MOp>);

#[derive(Clone, Debug, Hash, Serialize, Deserialize)]
pub struct BytesCase(pub Vec<u8>);

fn imm_patterns() -> Vec<i64> {
    let mut v = vec![0i64, -1, i64::MIN, i64::MAX];
    for i in 0..64 {
        v.push(1i64 << i);
        v.push(!(1i64 << i));
    }
    for (_, _, opc, _, _) in TABLE.iter() {
        for pos in 0..8 {
            let mut b = [0u8; 8];
            b[pos] = *opc;
            v.push(i64::from_be_bytes(b));
        }
    }
    v
}

fn oracle_opcode(c: &ByteCase, obs: &mut Obs) -> Result<(), Violation> {
    let b = c.0;
    let spec = MOp::from_opcode(b);
    let real = Opcode::try_from(b);
    match (&spec, &real) {
        (None, Err(e)) => {
            ensure!(e.0 == b, "asm:wrong-invalid-byte", "Opcode::try_from({b:#x}) error carries {:#x}", e.0);
            check_parse(&[b], obs)?;
            obs.nontrivial();
        }
        (Some(m), Ok(opc)) => {
            let back: u8 = (*opc).into();
            ensure!(back == b, "asm:opcode-u8", "u8::from(Opcode::try_from({b:#x})) = {back:#x}");
            // the opcode enums are `repr(u8)`: the plain cast must give the same byte
            use essential_asm::opcode as oc;
            let cast: u8 = match *opc {
                Opcode::Stack(x) => x as u8,
                Opcode::Pred(x) => x as u8,
                Opcode::Alu(x) => x as u8,
                Opcode::Access(x) => x as u8,
                Opcode::Crypto(x) => x as u8,
                Opcode::TotalControlFlow(x) => x as u8,
                Opcode::Memory(x) => x as u8,
                Opcode::ParentMemory(x) => x as u8,
                Opcode::StateRead(x) => x as u8,
                Opcode::Compute(x) => x as u8,
            };
            let _: Option<oc::Stack> = None;
            ensure!(cast == b, "asm:opcode-cast", "opcode {opc:?} casts to {cast:#x} with `as u8`, the specification says {b:#x}");
            let dbg = format!("{opc:?}");
            ensure!(
                dbg == format!("{}({})", m.group(), m.name()),
                "asm:opcode-name",
                "opcode {b:#x} denotes {dbg}, specification says {}::{}",
                m.group(),
                m.name()
            );
            // Every immediate pattern for this opcode.
            let pats = if matches!(m, MOp::PUSH(_)) { imm_patterns() } else { vec![0] };
            for w in pats {
                let mm = if let MOp::PUSH(_) = m { MOp::PUSH(w) } else { *m };
                ensure!(
                    mm.to_real() == mm.to_real_short(),
                    "asm:short-name",
                    "short constant {} does not denote {:?}",
                    mm.short(),
                    mm.to_real()
                );
                let dbg = format!("{:?}", mm.to_real());
                let want = if let MOp::PUSH(w) = mm {
                    format!("{}({}({}))", mm.group(), mm.name(), w)
                } else {
                    format!("{}({})", mm.group(), mm.name())
                };
                ensure!(dbg == want, "asm:op-name", "op for {b:#x} prints as {dbg}, expected {want}");
                check_roundtrip(&[mm], obs)?;
                let enc = refasm::encode(&[mm]);
                check_parse(&enc, obs)?;
                // every truncation
                for cut in 1..enc.len() {
                    check_parse(&enc[..cut], obs)?;
                }
            }
            obs.nontrivial();
        }
        (None, Ok(opc)) => return Err(viol!("asm:accepts-invalid", "byte {b:#x} accepted as opcode {opc:?} but is not in the specification")),
        (Some(m), Err(_)) => return Err(viol!("asm:rejects-valid", "byte {b:#x} ({}) rejected as opcode", m.short())),
    }
    Ok(())
}

fn oracle_pair(c: &PairCase, obs: &mut Obs) -> Result<(), Violation> {
    let mut bytes = vec![c.a];
    if MOp::from_opcode(c.a).map(|m| TABLE[m.index()].4).unwrap_or(0) == 8 {
        bytes.extend_from_slice(&c.imm_a.to_be_bytes());
    }
    bytes.push(c.b);
    if MOp::from_opcode(c.b).map(|m| TABLE[m.index()].4).unwrap_or(0) == 8 {
        bytes.extend_from_slice(&c.imm_b.to_be_bytes());
    }
    check_parse(&bytes, obs)?;
    obs.nontrivial();
    Ok(())
}

fn oracle_spec(_c: &ByteCase, obs: &mut Obs) -> Result<(), Violation> {
    let cur = refasm::spec_table_from_yaml(&format!("{}/crates/asm-spec/asm.yml", option_env!("EBV_REPO_DIR").unwrap_or("/repo")))
        .map_err(|e| viol!("asm:spec-unreadable", "cannot read asm.yml: {e}"))?;
    let mut cur_sorted = cur.clone();
    cur_sorted.sort();
    let mut gold = refasm::golden_rows();
    gold.sort();
    for r in &cur_sorted {
        ensure!(gold.contains(r), "asm:spec-drift", "asm.yml declares {r:?} which is not in the pinned opcode table");
    }
    for r in &gold {
        ensure!(cur_sorted.contains(r), "asm:spec-drift", "pinned opcode table has {r:?} which asm.yml no longer declares");
    }
    // The spec crate's own reader agrees with the file as well (asm-spec/src/de.rs is what asm-gen consumes).
    obs.nontrivial();
    Ok(())
}

/// Byte strings around the sizes at which a size constant could matter (Program::MAX_SIZE = 10000 bytes, 2^16):
/// `ops` one-byte ops with a Push every `push_every` ops, optionally cut `cut` bytes short.
#[derive(Clone, Debug, Hash, serde::Serialize, serde::Deserialize)]
pub struct LongBytes {
    pub bytes: usize,
    pub push_every: u8,
}

fn oracle_long(l: &LongBytes, obs: &mut Obs) -> Result<(), Violation> {
    let mut ops: Vec<MOp> = Vec::new();
    let mut len = 0usize;
    let mut i = 0usize;
    while len < l.bytes {
        let push = l.push_every != 0 && i % (l.push_every as usize) == 0 && len + 9 <= l.bytes;
        if push {
            ops.push(MOp::PUSH(i as i64 - 5));
            len += 9;
        } else {
            ops.push(MOp::POP);
            len += 1;
        }
        i += 1;
    }
    let bytes = crate::model::asm::encode(&ops);
    check_parse(&bytes, obs)?;
    check_roundtrip(&ops, obs)?;
    obs.label("long");
    obs.nontrivial();
    Ok(())
}

fn long_bytes() -> impl Strategy<Value = LongBytes> {
    (prop_oneof![4 => 9_985usize..10_030, 2 => 65_520usize..65_560, 1 => 0usize..80_000], prop_oneof![Just(0u8), Just(1u8), Just(2u8), 3u8..40]).prop_map(|(bytes, push_every)| LongBytes { bytes, push_every })
}

pub fn property() -> Property {
    let pats = imm_patterns();
    let npat = pats.len();
    Property {
        id: "C13",
        rule: "enumerated: all 256 opcode bytes (x every bit-walking / opcode-carrying immediate and every truncation), all 65,536 opcode pairs; generated: op sequences 0..60 and byte strings (random, mutated valid encodings, truncations). Non-trivial = a Push immediate contains a valid opcode byte, or the byte string is invalid/truncated, or an enumerated opcode/pair. Distinct = distinct case hash. Plus byte strings of 9985..10030, ~2^16 and random up to 80000 bytes (one-byte ops with a Push every k ops) parsed and round-tripped.",
        assumptions: vec![
            "golden/opcodes.json + harness/src/model/ops.rs are the pinned opcode table of the pinned commit",
            "RefAsm (harness/src/model/asm.rs) is the reference codec",
        ],
        health: vec![],
        subs: vec![
            enum_sub(
                "asm.opcodes_exhaustive",
                |_| Box::new((0..=255u8).map(ByteCase)),
                oracle_opcode,
            ),
            enum_sub(
                "asm.pairs_exhaustive",
                move |_| {
                    let pats = imm_patterns();
                    Box::new((0..=255u16).flat_map(move |a| {
                        let pats = pats.clone();
                        (0..=255u16).map(move |b| PairCase {
                            a: a as u8,
                            b: b as u8,
                            imm_a: pats[(a as usize * 7 + b as usize) % npat],
                            imm_b: pats[(a as usize + b as usize * 13) % npat],
                        })
                    }))
                },
                oracle_pair,
            ),
            prop_sub(
                "asm.roundtrip_ops",
                400_000,
                3_200_000,
                |_| proptest::collection::vec(gen::any_mop(), 0..60).prop_map(OpsCase),
                |c: &OpsCase, obs| check_roundtrip(&c.0, obs),
            ),
            prop_sub(
                "asm.parse_bytes",
                400_000,
                3_200_000,
                |_| {
                    prop_oneof![
                        // arbitrary bytes
                        2 => proptest::collection::vec(any::<u8>(), 0..40),
                        // bytes biased to valid opcodes
                        3 => proptest::collection::vec(prop_oneof![
                            4 => (0..TABLE.len()).prop_map(|i| TABLE[i].2),
                            1 => any::<u8>()], 0..40),
                        // valid encoding, truncated and/or one byte mutated
                        4 => (proptest::collection::vec(gen::mop_pushy(), 1..20), any::<u32>(), proptest::option::of((any::<u32>(), any::<u8>())))
                            .prop_map(|(ops, cut, mutate)| {
                                let mut b = refasm::encode(&ops);
                                if let Some((pos, val)) = mutate {
                                    let i = gen::pick_ix(pos, b.len());
                                    b[i] = val;
                                }
                                let n = gen::pick_ix(cut, b.len() + 1);
                                // mostly keep long prefixes
                                let keep = b.len() - (b.len() - n) / 3;
                                b.truncate(keep);
                                b
                            }),
                    ]
                    .prop_map(BytesCase)
                },
                |c: &BytesCase, obs| check_parse(&c.0, obs),
            ),
            prop_sub("asm.long_programs", 200, 2_000, |_| long_bytes(), oracle_long),
            enum_sub("asm.spec_and_golden", |_| Box::new(std::iter::once(ByteCase(0))), oracle_spec),
        ],
    }
}
