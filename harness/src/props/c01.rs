//! C01 — Solution-set verdict equals the predicate-graph reference semantics.
//! (The oracle and runner here are shared with C03, C04 and C02.)

use crate::chk::{build_world, check_history, compare, run_real, RunEnv};
use crate::doubles::Log;
use crate::engine::{prop_sub, Obs, Property, Tier, Violation};
use crate::gen::graphs::{graph_case, GraphCfg};
use crate::model::graph::{GraphCase, RefRun, RefTrace, RefVerdict};
use proptest::prelude::*;
use std::sync::Arc;

pub struct Evaluated {
    pub verdict: RefVerdict,
    pub trace: RefTrace,
}

/// Shape labels for the evidence / generator health.
pub fn label_shapes(case: &GraphCase, run: &RefRun, obs: &mut Obs) -> (bool, bool) {
    let mut structural = false;
    let mut input_dependent = false;
    for (pi, p) in case.predicates.iter().enumerate() {
        match &run.analyses[pi] {
            Err(_) => {
                obs.label("malformed-edge-list");
                structural = true;
            }
            Ok(a) => {
                if a.topo.is_none() {
                    obs.label("cyclic");
                    structural = true;
                    continue;
                }
                if a.dangling {
                    obs.label("dangling-edge");
                }
                let n = p.nodes.len();
                let multi_parent = a.parents.iter().any(|ps| {
                    let mut d = ps.clone();
                    d.dedup();
                    d.len() >= 2
                });
                let multi_edge = a.parents.iter().any(|ps| {
                    let mut d = ps.clone();
                    d.dedup();
                    d.len() < ps.len()
                });
                let non_topo = a.children.iter().enumerate().any(|(i, cs)| cs.iter().any(|c| (*c as usize) < i));
                let roots = a.parents.iter().filter(|p| p.is_empty()).count();
                if multi_parent {
                    obs.label("multi-parent-node");
                }
                if multi_edge {
                    obs.label("multi-edge");
                }
                if non_topo {
                    obs.label("non-topological-numbering");
                }
                if roots >= 2 {
                    obs.label("several-roots");
                }
                if a.leaf.iter().zip(&p.nodes).any(|(l, nd)| *l && nd.edge_start != crate::model::graph::LEAF) {
                    obs.label("leaf-by-empty-range");
                }
                if n >= 3 && (multi_parent || non_topo) {
                    structural = true;
                }
            }
        }
        if p.nodes.iter().any(|nd| case.programs[nd.prog].contains(&crate::model::ops::MOp::REP)) {
            input_dependent = true; // a fold (hash of the inherited stack) decides or is emitted
        }
    }
    (structural, input_dependent)
}

/// Run reference and real checker on one case and compare everything C01 promises.
pub fn run_case(case: &GraphCase, obs: &mut Obs) -> Result<Evaluated, Violation> {
    let world = build_world(case);
    let rr = RefRun::new(case, world.pred_addr.clone());
    let mut trace = RefTrace::default();
    let verdict = rr.evaluate(&mut trace);
    let log = Arc::new(Log::default());
    let real = run_real(
        case,
        &world,
        &RunEnv {
            log: Some(log.clone()),
            delay: None,
        },
    )?;
    if let RefVerdict::Unspecified(r) = &verdict {
        obs.skip(r);
        return Ok(Evaluated { verdict, trace });
    }
    compare(case, &verdict, &trace, &real)?;
    let reqs = log.reqs.lock().unwrap().clone();
    check_history(case, &rr, &verdict, &reqs)?;
    match &verdict {
        RefVerdict::Ok { .. } => obs.label("verdict-ok"),
        RefVerdict::Failed { pass: 1, .. } => obs.label("verdict-failed-pass1"),
        RefVerdict::Failed { .. } => obs.label("verdict-failed-pass2"),
        RefVerdict::Mutations { .. } => obs.label("verdict-mutation-error"),
        RefVerdict::Unspecified(_) => {}
    }
    match case.mode {
        0 => obs.label("mode-two-pass"),
        1 => obs.label("mode-check_set_predicates-x2"),
        _ => obs.label("mode-check_and_compute-x2"),
    }
    if case.solutions.len() >= 2 {
        obs.label(">=2 solutions");
    }
    if trace.deferred_with_lower_numbered_descendant {
        obs.label("post-reader-with-lower-numbered-descendant");
    }
    Ok(Evaluated { verdict, trace })
}

fn oracle(case: &GraphCase, obs: &mut Obs) -> Result<(), Violation> {
    let world_free = RefRun::new(case, vec![[0; 32]; case.predicates.len()]);
    let (structural, input_dep) = label_shapes(case, &world_free, obs);
    run_case(case, obs)?;
    obs.nontrivial_if(structural && input_dep);
    Ok(())
}

fn large_case(t: Tier) -> impl Strategy<Value = GraphCase> {
    let max_nodes = t.pick(120, 900);
    // mostly without failing programs, so that a good share of the big graphs is accepted and all of
    // their nodes are compared
    (any::<bool>(), any::<bool>()).prop_flat_map(move |(failing, post)| {
        graph_case(GraphCfg {
            max_nodes,
            max_solutions: 2,
            corrupt_pct: 1,
            dangling_pct: 0,
            failing: failing && post,
            calm: !failing,
            post_weight: if post { 2 } else { 0 },
            ..Default::default()
        })
    })
}

pub fn property() -> Property {
    Property {
        id: "C01",
        rule: "generated cases from a choice stream: 1..3 predicates with random DAGs of 2..10 nodes (thorough 2..24, plus graphs up to 120/900 nodes) built in topological-id space (0..3 parents per node incl. multi-edges, chains, diamonds, several roots/leaves) and then renumbered (identity / reversed / random permutation), encoded with leaves by marker or by empty edge range, 8% corrupted (cycle, self-loop, edge_start out of range, decreasing starts), 2% dangling targets; node programs from order-sensitive families (tag, fold = rolling hash of the inherited stack, pass, pre/post state reads, parity leaf, emit leaf = hash as computed mutation, bad leaves, failing programs, invalid data outputs, oversize outputs), each starting with a trace read; 1..4 solutions sharing predicates and contracts; both values of collect_all_failures; entry = two-pass / check_set_predicates x2 / check_and_compute_solution_set x2 over a shared cache. Oracle: RefGraph (memoised topological evaluation from the edge slices, transitive deferral, overlay) - verdict class, failing solutions, failing/unsatisfied node sets, total gas, data outputs, computed mutations; plus the history invariant from recorded trace reads (each node exactly once, after all parents, nothing for rejected graphs, first pass before any deferred node). Non-trivial = a predicate with >=3 nodes and (a node with >=2 distinct parents or a non-topological numbering), or a cyclic/malformed graph, and a fold-based program (verdict/outputs depend on the inherited inputs).",
        assumptions: vec![
            "edge targets >= node count are unspecified (case skipped; totality is C06's subject)",
            "under collect_all_failures=false any root-cause failure may be the reported one; under true, descendants of failed nodes may be reported in addition",
            "data outputs are canonical mutation lists or unambiguously invalid by construction",
        ],
        health: vec![
            ("graph.semantics", "non-topological-numbering", 300),
            ("graph.semantics", "multi-parent-node", 300),
            ("graph.semantics", "multi-edge", 100),
            ("graph.semantics", "verdict-ok", 100),
        ],
        subs: vec![
            prop_sub(
                "graph.semantics",
                200_000,
                1_600_000,
                |t| match t {
                    Tier::Quick => graph_case(GraphCfg::default()).boxed(),
                    // bigger graphs fail more often (every node is a chance to fail): keep half of the cases at the
                    // quick size, and let half of the big ones do without deliberately failing programs
                    Tier::Thorough => prop_oneof![
                        2 => graph_case(GraphCfg::default()),
                        1 => graph_case(GraphCfg { max_nodes: 24, ..Default::default() }),
                        1 => graph_case(GraphCfg { max_nodes: 24, failing: false, ..Default::default() }),
                    ]
                    .boxed(),
                },
                oracle,
            ),
            prop_sub("graph.large", 1_000, 8_000, large_case, oracle),
            prop_sub(
                "graph.concat_limits",
                3_000,
                40_000,
                |_| proptest::collection::vec(any::<u32>(), 8..40).prop_map(crate::gen::graphs::build_concat_case),
                |c: &GraphCase, obs| {
                    run_case(c, obs)?;
                    obs.nontrivial();
                    Ok(())
                },
            ),
        ],
    }
}

pub fn oracle_pub(case: &GraphCase, obs: &mut Obs) -> Result<(), Violation> {
    oracle(case, obs)
}
