//! C12 — Access and crypto ops expose solution data and agree with the hash/sign crates.

use crate::engine::{enum_sub, prop_sub, Obs, Property, Tier, Violation};
use crate::gen;
use crate::model::ops::MOp::{self, *};
use crate::model::vm::{bytes_to_words, predicate_exists_hash, MSolution};
use crate::real::{exec_agrees_with_lockstep, lockstep, ExecCase, LockCfg};
use proptest::prelude::*;

fn run(case: &ExecCase, obs: &mut Obs) -> Result<crate::real::LockSummary, Violation> {
    let cfg = LockCfg {
        budget: 50,
        breadth_cap: 1,
        record_ops: false,
    };
    let sum = lockstep(case, &cfg, obs)?;
    exec_agrees_with_lockstep(case, &sum)?;
    if sum.failed_at.is_some() {
        obs.label("op-error");
    } else {
        obs.label("ok");
    }
    Ok(sum)
}

pub fn oracle(case: &ExecCase, obs: &mut Obs) -> Result<(), Violation> {
    run(case, obs)?;
    obs.nontrivial();
    Ok(())
}

// ---------------------------------------------------------------- access

fn solution() -> impl Strategy<Value = MSolution> {
    (
        gen::bytes32(),
        gen::bytes32(),
        proptest::collection::vec(
            prop_oneof![
                16 => proptest::collection::vec(gen::word(), 0..6),
                4 => proptest::collection::vec(gen::word(), 30..41),
                // a slot longer than the stack (slots may hold up to 10000 words)
                1 => (4090usize..5010).prop_map(|n| (0..n as i64).collect::<Vec<i64>>()),
            ],
            0..5,
        ),
    )
        .prop_map(|(contract, predicate, data)| MSolution {
            contract,
            predicate,
            data,
            mutations: vec![],
        })
}

fn solution_set() -> impl Strategy<Value = (Vec<MSolution>, usize)> {
    (proptest::collection::vec(solution(), 1..7), any::<u32>()).prop_map(|(s, i)| {
        let ix = gen::pick_ix(i, s.len());
        (s, ix)
    })
}

fn data_case() -> impl Strategy<Value = ExecCase> {
    solution_set()
        .prop_flat_map(|(sols, ix)| {
            let nslots = sols[ix].data.len();
            let slot = gen::index_like(nslots);
            (Just((sols, ix)), slot, 0u8..3, proptest::collection::vec(gen::word(), 0..3))
        })
        .prop_flat_map(|((sols, ix), slot, which, below)| {
            let slen = if slot >= 0 { sols[ix].data.get(slot as usize).map(|s| s.len()).unwrap_or(3) } else { 3 };
            let (v, n) = if slen > 4096 {
                // reads that start / end around offset 4096 of a long slot, and around its end
                (prop_oneof![2 => 4080i64..4100, 1 => gen::index_like(slen)].boxed(), prop_oneof![3 => 0i64..20, 1 => gen::index_like(slen)].boxed())
            } else {
                (gen::index_like(slen).boxed(), prop_oneof![gen::index_like(slen), 0i64..3].boxed())
            };
            (Just((sols, ix, slot, which, below)), v, n, proptest::option::weighted(0.2, -1i64..2))
        })
        .prop_map(|((sols, ix, slot, which, mut below), v, n, fit)| {
            // the words pushed leave the stack one short of full, exactly full, or one over
            if let Some(delta) = fit {
                let pushed = match which {
                    0 => n.clamp(0, 64),
                    1 => 1,
                    _ => 1,
                };
                let operands = match which {
                    0 => 3,
                    1 => 1,
                    _ => 0,
                };
                below = vec![5; (4096 + delta - pushed).clamp(0, 4096 - operands) as usize];
            }
            let (op, operands) = match which {
                0 => (DATA, vec![slot, v, n]),
                1 => (DLEN, vec![slot]),
                _ => (DSLT, vec![]),
            };
            let mut c = ExecCase::simple(vec![op]);
            c.solutions = sols;
            c.index = ix;
            c.init.stack = below;
            c.init.stack.extend(operands);
            c
        })
}

fn address_case() -> impl Strategy<Value = ExecCase> {
    (solution_set(), any::<bool>(), prop_oneof![4 => Just(0usize), 1 => Just(4092usize), 1 => Just(4093usize)]).prop_map(|((sols, ix), this, base)| {
        let mut c = ExecCase::simple(vec![if this { THIS } else { THISC }]);
        c.solutions = sols;
        c.index = ix;
        c.init.stack = vec![1; base];
        c
    })
}

pub fn pex_case() -> impl Strategy<Value = ExecCase> {
    (solution_set(), 0u8..8, any::<u32>(), any::<u32>(), gen::bytes32(), 0u8..3).prop_map(|((mut sols, ix), mode, pick, pos, random, share)| {
        // several solutions for the same predicate (same addresses, different data): each must be found
        if share == 0 && sols.len() >= 2 {
            let (c, p) = (sols[0].contract, sols[0].predicate);
            for s in sols.iter_mut().skip(1) {
                s.contract = c;
                s.predicate = p;
            }
        }
        let target = &sols[gen::pick_ix(pick, sols.len())];
        let mut near = target.clone();
        let hash: [u8; 32] = match mode {
            0 | 1 => predicate_exists_hash(target),
            2 => {
                // one word of the data changed
                if let Some(slot) = near.data.iter_mut().find(|s| !s.is_empty()) {
                    let i = gen::pick_ix(pos, slot.len());
                    slot[i] = slot[i].wrapping_add(1);
                } else {
                    near.data.push(vec![0]);
                }
                predicate_exists_hash(&near)
            }
            3 => {
                // slot boundary moved: [[a,b]] vs [[a],[b]]
                if let Some(k) = near.data.iter().position(|s| s.len() >= 2) {
                    let tail = near.data[k].split_off(1);
                    near.data.insert(k + 1, tail);
                } else {
                    near.data.push(vec![]);
                }
                predicate_exists_hash(&near)
            }
            4 => {
                near.contract[gen::pick_ix(pos, 32)] ^= 1;
                predicate_exists_hash(&near)
            }
            5 => {
                std::mem::swap(&mut near.contract, &mut near.predicate);
                predicate_exists_hash(&near)
            }
            6 => {
                // hash without the length prefixes
                let mut w: Vec<i64> = near.data.iter().flatten().copied().collect();
                w.extend(bytes_to_words(&near.contract));
                w.extend(bytes_to_words(&near.predicate));
                essential_hash::hash_bytes(&crate::model::vm::words_to_bytes(&w))
            }
            _ => random,
        };
        // one or two look-ups in the same execution (the second one hits the lazily built cache)
        let second = predicate_exists_hash(&sols[gen::pick_ix(pos, sols.len())]);
        let mut prog = vec![PEX];
        if mode % 2 == 1 {
            prog.extend(bytes_to_words(&second).into_iter().map(PUSH));
            prog.push(PEX);
        }
        let mut c = ExecCase::simple(prog);
        c.solutions = sols;
        c.index = ix;
        c.init.stack = vec![5];
        c.init.stack.extend(bytes_to_words(&hash));
        c
    })
}

// ---------------------------------------------------------------- crypto

fn pack_bytes(b: &[u8], garbage: u8) -> Vec<i64> {
    let mut padded = b.to_vec();
    while padded.len() % 8 != 0 {
        padded.push(garbage); // bytes beyond the length must be ignored
    }
    bytes_to_words(&padded)
}

fn sha_items(_t: Tier) -> Box<dyn Iterator<Item = ExecCase>> {
    // every byte length 0..=72, two fill patterns, plus wrong lengths
    let mut v = Vec::new();
    for n in 0..=72usize {
        for pat in [0u8, 0xa5] {
            let data: Vec<u8> = (0..n).map(|i| (i as u8).wrapping_mul(31) ^ pat).collect();
            let mut c = ExecCase::simple(vec![SHA2]);
            c.init.stack = vec![42];
            c.init.stack.extend(pack_bytes(&data, 0xff));
            c.init.stack.push(n as i64);
            v.push(c);
        }
    }
    for len in [-1i64, 9, 16, 17, i64::MAX, i64::MIN] {
        let mut c = ExecCase::simple(vec![SHA2]);
        c.init.stack = vec![1, 2, len];
        v.push(c);
    }
    Box::new(v.into_iter())
}

fn sha_case() -> impl Strategy<Value = ExecCase> {
    (proptest::collection::vec(any::<u8>(), 0..200), any::<u8>(), proptest::option::weighted(0.15, gen::index_like(30)), proptest::collection::vec(gen::word(), 0..3)).prop_map(
        |(data, garbage, len_o, below)| {
            let mut c = ExecCase::simple(vec![SHA2]);
            c.init.stack = below;
            c.init.stack.extend(pack_bytes(&data, garbage));
            c.init.stack.push(len_o.unwrap_or(data.len() as i64));
            c
        },
    )
}

fn ed_case() -> impl Strategy<Value = ExecCase> {
    (
        any::<[u8; 32]>(),
        proptest::collection::vec(any::<u8>(), 0..80),
        prop_oneof![4 => Just(0u8), 2 => Just(1u8), 2 => Just(2u8), 2 => Just(3u8), 1 => Just(4u8), 1 => Just(5u8)],
        any::<u32>(),
        any::<u8>(),
    )
        .prop_map(|(seed, msg, corrupt, pos, garbage)| {
            use ed25519_dalek::Signer;
            let sk = ed25519_dalek::SigningKey::from_bytes(&seed);
            let mut sig = sk.sign(&msg).to_bytes();
            let mut key = sk.verifying_key().to_bytes();
            let mut msg2 = msg.clone();
            match corrupt {
                1 => {
                    if !msg2.is_empty() {
                        let i = gen::pick_ix(pos, msg2.len() * 8);
                        msg2[i / 8] ^= 1 << (i % 8);
                    } else {
                        msg2.push(0);
                    }
                }
                2 => {
                    let i = gen::pick_ix(pos, 512);
                    sig[i / 8] ^= 1 << (i % 8);
                }
                3 => {
                    let i = gen::pick_ix(pos, 256);
                    key[i / 8] ^= 1 << (i % 8);
                }
                4 => key = [0xff; 32],
                // small-order public key and R (the neutral element) with s = 0: a well-formed signature that plain
                // verification accepts for every message
                5 => {
                    key = [0; 32];
                    key[0] = 1;
                    sig = [0; 64];
                    sig[0] = 1;
                }
                _ => {}
            }
            let mut c = ExecCase::simple(vec![VRFYED]);
            c.init.stack = vec![9];
            c.init.stack.extend(pack_bytes(&msg2, garbage));
            c.init.stack.push(msg2.len() as i64);
            c.init.stack.extend(bytes_to_words(&sig));
            c.init.stack.extend(bytes_to_words(&key));
            c
        })
}

fn secp_case() -> impl Strategy<Value = ExecCase> {
    (
        any::<[u8; 32]>(),
        any::<[u8; 32]>(),
        prop_oneof![5 => Just(0u8), 2 => Just(1u8), 2 => Just(2u8), 1 => Just(3u8), 2 => Just(4u8), 1 => Just(5u8)],
        prop_oneof![5 => Just(None), 1 => (0i64..4).prop_map(Some), 1 => prop_oneof![Just(4i64), Just(-1i64), Just(1i64 << 31), Just(i64::MAX), Just(255i64)].prop_map(Some)],
        any::<u32>(),
        1u8..40,
    )
        .prop_map(|(skb, digest, mode, id_o, pos, small_r)| {
            let sk = essential_sign::secp256k1::SecretKey::from_slice(&skb).unwrap_or_else(|_| essential_sign::secp256k1::SecretKey::from_slice(&[1; 32]).unwrap());
            let sig = essential_sign::sign_hash(digest, &sk);
            let mut sb = sig.0;
            let mut id = sig.1 as i64;
            let mut dg = digest;
            match mode {
                1 => {
                    let i = gen::pick_ix(pos, 512);
                    sb[i / 8] ^= 1 << (i % 8);
                }
                2 => {
                    let i = gen::pick_ix(pos, 256);
                    dg[i / 8] ^= 1 << (i % 8);
                }
                3 => sb = [0; 64],
                4 => {
                    // well-formed, tiny r and s: often not recoverable
                    sb = [0; 64];
                    sb[31] = small_r;
                    sb[63] = 1 + (pos % 3) as u8;
                }
                5 => sb = [0xff; 64],
                _ => {}
            }
            if let Some(i) = id_o {
                id = i;
            }
            let mut c = ExecCase::simple(vec![RSECP]);
            c.init.stack = vec![3];
            c.init.stack.extend(bytes_to_words(&dg));
            c.init.stack.extend(bytes_to_words(&sb));
            c.init.stack.push(id);
            c
        })
}

fn short_stack_items(_t: Tier) -> Box<dyn Iterator<Item = ExecCase>> {
    // every op of the two groups with too few operands
    let mut v = Vec::new();
    for op in [DATA, DLEN, DSLT, THIS, THISC, PEX, SHA2, VRFYED, RSECP, REPC] {
        for n in [0usize, 1, 2, 3, 4, 8, 12, 13] {
            let mut c = ExecCase::simple(vec![op]);
            c.init.stack = vec![0; n];
            v.push(c);
        }
    }
    Box::new(v.into_iter())
}

pub fn property() -> Property {
    let _: Option<MOp> = None;
    Property {
        id: "C12",
        rule: "generated single-op executions: PredicateData/Len/Slots over solution sets of 1..6 solutions (slots of 0..40 words) with index-like slot/offset/length operands and every checked-solution index; ThisAddress/ThisContractAddress with random distinct addresses (also with a nearly full stack); PredicateExists with the hash of a present solution, of near misses (one word changed, slot boundary moved, one address bit flipped, addresses swapped, length prefixes omitted) and random hashes; Sha256 for every byte length 0..72 exhaustively and random lengths to 200 with garbage in the padding bytes; VerifyEd25519 with keys from generated seeds, valid signatures and single-bit corruptions of message/signature/key; RecoverSecp256k1 with generated keys, digests, recovery ids {0..3,4,-1,2^31,MAX,255}, corrupted/zero/all-ones/tiny-r signatures; all ops with too few operands. Oracle: RefVm, which indexes the generated data directly and calls the hash/sign crates on bytes it marshals itself; compared after the op and through exec_ops. Every case is non-trivial by construction (boundary operand, non-multiple-of-8 length, corrupted input or near-miss pre-image).",
        assumptions: vec![
            "Ed25519 public keys that are not curve points: an error or the result 0 are both accepted",
            "malformed secp256k1 encodings (recovery id outside 0..=3, r/s not below the group order) must be errors, as the sign crate answers for the same bytes; five zero words are reserved for well-formed but unrecoverable signatures",
        ],
        health: vec![],
        subs: vec![
            prop_sub("acc.predicate_data", 72_000, 600_000, |_| data_case(), oracle),
            prop_sub("acc.addresses", 12_000, 100_000, |_| address_case(), oracle),
            prop_sub("acc.predicate_exists", 36_000, 300_000, |_| pex_case(), oracle),
            enum_sub("cry.sha256_lengths", sha_items, oracle),
            prop_sub("cry.sha256", 36_000, 300_000, |_| sha_case(), oracle),
            prop_sub("cry.ed25519", 18_000, 144_000, |_| ed_case(), oracle),
            prop_sub("cry.secp256k1", 18_000, 144_000, |_| secp_case(), oracle),
            enum_sub("acc_cry.missing_operands", short_stack_items, oracle),
        ],
    }
}
