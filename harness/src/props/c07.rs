//! C07 — Gas is accounted exactly and the total limit is never exceeded.

use crate::doubles::CostTable;
use crate::engine::{prop_sub, Obs, Property, Violation};
use crate::gen::{cases, programs};
use crate::model::ops::MOp::{self, *};
use crate::model::ops::N_OPS;
use crate::model::vm::{ErrClass, RunResult};
use crate::props::c08::program_case;
use crate::real::{class_matches, model_gas_after_first_compute, run_exec, run_model, run_model_calls, ExecCase};
use crate::{ensure, viol};
use proptest::prelude::*;

const BUDGET: u64 = 30_000;
const CAP: i64 = 64;

pub fn oracle(case: &ExecCase, obs: &mut Obs) -> Result<(), Violation> {
    let (mr, mstate, mgas, executed, model_calls) = run_model_calls(case, BUDGET, CAP);
    match &mr {
        RunResult::Unspec(r) => {
            obs.skip(r);
            return Ok(());
        }
        RunResult::OverBudget => {
            obs.skip("over step budget");
            return Ok(());
        }
        RunResult::ExcludedBreadth => {
            obs.skip("compute breadth above cap");
            return Ok(());
        }
        _ => {}
    }
    // What would the total be without a limit? (for the non-triviality rule)
    let unlimited = {
        let mut c = case.clone();
        c.limit = u64::MAX;
        run_model(&c, BUDGET, CAP)
    };
    let out = run_exec(case, false)?;
    let has_compute = case.prog.contains(&COM);
    match (&mr, &out.result) {
        (RunResult::Ok { gas, .. }, Ok(g)) => {
            ensure!(g == gas, "gas:reported", "exec reports gas {g}, the executed operations cost {gas} in total");
            ensure!(*g <= case.limit, "gas:over-limit", "exec returned Ok({g}) above the limit {}", case.limit);
            let (count, sum) = out.audit;
            ensure!(
                sum == *g as u128,
                "gas:audit-sum",
                "exec reports gas {g} but the cost function handed out {sum} over {count} calls"
            );
            ensure!(
                count == executed,
                "gas:audit-count",
                "the cost function was asked {count} times, the program executes {executed} operations"
            );
            ensure!(
                mstate == out.fin,
                "gas:final-state",
                "final machine state differs: expected pc {} stack len {} mem len {}, VM pc {} stack len {} mem len {}",
                mstate.pc,
                mstate.stack.len(),
                mstate.memory.len(),
                out.fin.pc,
                out.fin.stack.len(),
                out.fin.memory.len()
            );
            obs.label("ok");
            // The machine's public `halt` flag ("propagation of Halt encountered in compute program") set beforehand:
            // the run stops after its first Compute (as coded) or ignores the flag; either way the reported gas is the
            // exact sum of what was executed, children included.
            if has_compute && !case.halt && case.parent.is_none() {
                if let Some(after_first) = model_gas_after_first_compute(case, BUDGET, CAP) {
                    let mut hc = case.clone();
                    hc.halt = true;
                    let hout = run_exec(&hc, false)?;
                    match &hout.result {
                        Ok(hg) => {
                            let (_, hsum) = hout.audit;
                            ensure!(
                                hsum == *hg as u128 && (*hg as u128 == after_first || hg == gas),
                                "gas:preset-halt",
                                "machine started with the halt flag set: exec reports gas {hg}, the cost function handed out {hsum}; the total up to the join of the first Compute is {after_first}, of the whole program {gas}"
                            );
                            obs.label("preset-halt-compute");
                        }
                        Err((ix, re)) => return Err(viol!("gas:preset-halt", "machine started with the halt flag set: program that succeeds fails at op {ix}: {re:?}")),
                    }
                }
            }
        }
        (RunResult::Err { index, class }, Err((ix, re))) => {
            ensure!(ix == index, "gas:error-index", "error reported at op {ix}, expected at {index} ({class:?} vs {re:?})");
            let op_is_compute = case.prog.get(*index) == Some(&COM);
            ensure!(
                class_matches(class, re, op_is_compute),
                "gas:error-class",
                "op {index}: expected {class:?}, VM reports {re:?}"
            );
            if let ErrClass::OutOfGas { spent, op_gas } = class {
                // the op that would exceed the limit must not have had any effect
                ensure!(
                    mstate == out.fin,
                    "gas:oog-effect",
                    "out of gas at op {index} (spent {spent}, op costs {op_gas}, limit {}): machine state differs from the state before the op: expected pc {} stack {:?} mem len {}, VM pc {} stack {:?} mem len {}",
                    case.limit,
                    mstate.pc,
                    crate::real::vm_state_tail(&mstate.stack),
                    mstate.memory.len(),
                    out.fin.pc,
                    crate::real::vm_state_tail(&out.fin.stack),
                    out.fin.memory.len()
                );
                ensure!(
                    *spent as u128 + *op_gas as u128 > case.limit as u128,
                    "harness:oog",
                    "model reported a spurious out-of-gas"
                );
                obs.label("out-of-gas");
            } else if matches!(class, ErrClass::OutOfGasInCompute) {
                // "... before that operation has any effect": nothing of the children reaches the parent's memory
                ensure!(
                    mstate.memory == out.fin.memory,
                    "gas:oog-effect",
                    "Compute at op {index} failed with out-of-gas, but the parent's memory changed: {} words before, {} after",
                    mstate.memory.len(),
                    out.fin.memory.len()
                );
                obs.label("out-of-gas-in-compute");
            } else {
                obs.label("other-error");
            }
            // bounded work: nothing beyond what the sequential semantics attempt is ever costed (a child stops at
            // the first op it cannot pay for; the VM may stop other children early, never late)
            let (count, _) = out.audit;
            ensure!(
                count <= model_calls,
                "gas:work-beyond-limit",
                "{count} operations were costed (limit {}), the sequential semantics attempt only {model_calls}: work continued after the budget was exhausted",
                case.limit
            );
        }
        (RunResult::Ok { gas, .. }, Err((ix, re))) => {
            return Err(viol!(
                "gas:spurious-error",
                "program must succeed with gas {gas} (limit {}), VM failed at op {ix}: {re:?}",
                case.limit
            ))
        }
        (RunResult::Err { index, class }, Ok(g)) => {
            return Err(viol!(
                "gas:missed-error",
                "program must fail at op {index} ({class:?}, limit {}), VM returned Ok({g})",
                case.limit
            ))
        }
        _ => {}
    }
    let _ = mgas;
    // non-triviality
    let near_limit = match &unlimited.0 {
        RunResult::Ok { gas, .. } => (*gas as i128 - case.limit as i128).abs() <= 2 * case.costs.0.iter().copied().max().unwrap_or(1).max(1) as i128,
        _ => false,
    };
    let huge = case.costs.0.iter().any(|c| *c >= 1 << 62);
    let compute_over = has_compute && matches!(&mr, RunResult::Err { class: ErrClass::OutOfGasInCompute | ErrClass::Any, .. });
    if near_limit {
        obs.label("limit-near-total");
    }
    if huge {
        obs.label("huge-cost");
    }
    if compute_over {
        obs.label("compute-over-budget");
    }
    obs.nontrivial_if(near_limit || huge || compute_over);
    Ok(())
}

fn gas_programs() -> impl Strategy<Value = Vec<MOp>> {
    let compute_heavy = (1i64..40, 0usize..30, 0usize..4).prop_map(|(b, body, tail)| {
        let mut prog = vec![PUSH(b), COM];
        for i in 0..body {
            prog.push(if i % 2 == 0 { PUSH(i as i64) } else { POP });
        }
        if body % 2 == 1 {
            prog.push(POP);
        }
        prog.push(COME);
        for i in 0..tail {
            prog.push(PUSH(i as i64));
        }
        prog
    });
    prop_oneof![
        4 => programs::structured(programs::StructCfg { max_loop: 4, ..Default::default() }),
        3 => compute_heavy,
        1 => programs::soup(12),
    ]
}

/// Case with the limit placed relative to the exact total.
fn boundary_case() -> impl Strategy<Value = ExecCase> {
    (gas_programs(), cases::cost_table(), -3i64..4, any::<bool>()).prop_map(|(prog, costs, delta, unit)| {
        let mut c = program_case(prog);
        c.costs = if unit { CostTable::uniform(1) } else { costs };
        c.limit = u64::MAX;
        let (r, _, _, _) = run_model(&c, BUDGET, CAP);
        if let RunResult::Ok { gas, .. } = r {
            c.limit = (gas as i128 + delta as i128).clamp(0, u64::MAX as i128) as u64;
        } else {
            c.limit = 100;
        }
        c
    })
}

fn huge_case() -> impl Strategy<Value = ExecCase> {
    (gas_programs(), proptest::collection::vec((0..N_OPS, cases::cost_value()), 1..5), cases::limit_value(), 0u64..3).prop_map(|(prog, over, limit, base)| {
        let mut c = program_case(prog);
        let mut t = vec![base; N_OPS];
        for (i, v) in over {
            t[i] = v;
        }
        // make sure ops that actually occur get the extreme costs sometimes
        c.costs = CostTable(t);
        c.limit = limit;
        c
    })
}

pub fn property() -> Property {
    Property {
        id: "C07",
        rule: "generated programs (structured jumps/repeats/compute, Compute of breadth 1..40 with bodies of 0..30 ops, op soup) x cost tables (uniform, per-op random, a few opcodes at {0,1,2,1000,2^32,2^62,2^63,u64::MAX-1,u64::MAX}) x limits (exact total -3..+3 from a RefVm dry run, {0,1,small,2^62,2^63,u64::MAX-1,u64::MAX}); executed through Vm::exec_ops with an auditing cost function, in the overflow-checked and release builds. Oracle: Ok(g) => g = audited sum = RefVm sum <= limit, audited call count = executed ops, final state equal; otherwise error at RefVm's op index with the out-of-gas class (spent/op_gas equal), machine state equal to the state before the op for a top-level out-of-gas, bounded number of costed ops. Non-trivial = the limit is within two ops of the exact total, or a cost >= 2^62, or a Compute whose children exceed the remaining budget.",
        assumptions: vec![
            "an out-of-gas that arises inside or at the join of a Compute is only required to be an out-of-gas error at the Compute's index (children have no observable state)",
        ],
        health: vec![("gas.limit_boundary", "limit-near-total", 300)],
        subs: vec![
            prop_sub("gas.exact_sum", 10_000, 500_000, |_| cases::exec_case(gas_programs(), false), oracle).may_abort().both_profiles(),
            prop_sub("gas.limit_boundary", 12_000, 600_000, |_| boundary_case(), oracle).may_abort().both_profiles(),
            prop_sub("gas.huge_costs", 8_000, 400_000, |_| huge_case(), oracle).may_abort().both_profiles(),
        ],
    }
}
