//! C14 — Mapped bytecode is equivalent to the parsed operation list.

use crate::doubles::{AuditGas, StErr, Views};
use crate::engine::{no_panic, prop_sub, Obs, Property, Violation};
use crate::gen::{self, cases, programs};
use crate::model::asm as refasm;
use crate::model::ops::MOp::{self, *};
use crate::model::ops::ALL;
use crate::real::{run_model, to_real_ops, to_real_solutions, ExecCase};
use crate::{ensure, viol};
use essential_asm::{FromBytesError, Op};
use essential_vm::{Access, BytecodeMapped, GasLimit};
use proptest::prelude::*;
use serde::{Deserialize, Serialize};
use std::sync::Arc;

#[derive(Clone, Debug, Hash, Serialize, Deserialize)]
pub struct BytesCase(pub Vec<u8>);

fn kind(e: &FromBytesError) -> (u8, Option<u8>) {
    match e {
        FromBytesError::InvalidOpcode(b) => (0, Some(b.0)),
        FromBytesError::NotEnoughBytes(_) => (1, None),
    }
}

fn check_mapped<B: std::ops::Deref<Target = [u8]>>(
    what: &str,
    mapped: &Result<BytecodeMapped<B>, FromBytesError>,
    parsed: &Result<Vec<Op>, FromBytesError>,
    bytes: &[u8],
) -> Result<(), Violation> {
    match (mapped, parsed) {
        (Ok(m), Ok(ops)) => {
            let got: Vec<Op> = no_panic("BytecodeMapped::ops", || m.ops().collect())?;
            ensure!(got == *ops, "map:ops", "{what}: ops() = {got:?}, parsed list = {ops:?}");
            let far = [usize::MAX, usize::MAX - 1, usize::MAX / 2, usize::MAX / 2 + 1, 1 << 32, (1 << 32) - 1, 1 << 16, 10_000];
            for i in (0..ops.len() + 4).chain(far) {
                let o = no_panic("BytecodeMapped::op", || m.op(i))?;
                ensure!(o == ops.get(i).copied(), "map:op-index", "{what}: op({i}) = {o:?}, list[{i}] = {:?}", ops.get(i));
                let from = no_panic("BytecodeMapped::ops_from", || m.ops_from(i).map(|s| s.ops().collect::<Vec<Op>>()))?;
                let want = if i <= ops.len() { Some(ops[i..].to_vec()) } else { None };
                ensure!(from == want, "map:ops-from", "{what}: ops_from({i}) = {from:?}, expected {want:?}");
            }
            ensure!(m.bytecode() == bytes, "map:bytecode", "{what}: bytecode() differs from the input");
            let (_, offs) = refasm::decode(bytes).map_err(|e| viol!("map:accepts-invalid", "{what}: mapped {bytes:02x?} which the specification rejects: {e:?}"))?;
            ensure!(m.op_indices() == offs, "map:indices", "{what}: op_indices {:?}, byte offsets of the ops are {offs:?}", m.op_indices());
            let sl = m.as_slice();
            ensure!(sl.op_indices() == offs, "map:slice-indices", "{what}: as_slice().op_indices differ");
        }
        (Err(a), Err(b)) => {
            ensure!(kind(a) == kind(b), "map:error-kind", "{what}: mapping fails with {a:?}, parsing with {b:?} for {bytes:02x?}");
        }
        (Ok(_), Err(e)) => return Err(viol!("map:accepts-unparsable", "{what}: mapping succeeded but parsing fails with {e:?} for {bytes:02x?}")),
        (Err(e), Ok(ops)) => return Err(viol!("map:rejects-parsable", "{what}: mapping fails with {e:?} but parsing gives {ops:?}")),
    }
    Ok(())
}

fn oracle_bytes(c: &BytesCase, obs: &mut Obs) -> Result<(), Violation> {
    let bytes = &c.0;
    let parsed: Result<Vec<Op>, FromBytesError> = essential_asm::from_bytes(bytes.iter().copied()).collect();
    let owned = no_panic("try_from(Vec<u8>)", || BytecodeMapped::try_from(bytes.clone()))?;
    check_mapped("owned", &owned, &parsed, bytes)?;
    let borrowed = no_panic("try_from(&[u8])", || BytecodeMapped::try_from(&bytes[..]))?;
    check_mapped("borrowed", &borrowed, &parsed, bytes)?;
    let arc: Arc<[u8]> = Arc::from(bytes.clone().into_boxed_slice());
    let shared = no_panic("try_from_bytes(Arc<[u8]>)", || BytecodeMapped::<Arc<[u8]>>::try_from_bytes(arc))?;
    check_mapped("arc", &shared, &parsed, bytes)?;
    match &parsed {
        Ok(ops) => {
            // building from operations reproduces the serialised bytes
            let built: BytecodeMapped = ops.iter().copied().collect();
            ensure!(built.bytecode() == &bytes[..], "map:from-iter", "FromIterator gives {:02x?}, serialised ops are {bytes:02x?}", built.bytecode());
            ensure!(Ok(&built) == owned.as_ref().map_err(|_| ()), "map:from-iter-eq", "FromIterator and try_from give different mappings");
            let mut pushed = BytecodeMapped::default();
            for op in ops {
                pushed.push_op(*op);
            }
            ensure!(pushed == built, "map:push-op", "push_op and FromIterator give different mappings");
            obs.label("valid");
            obs.nontrivial_if(ops.iter().any(|o| matches!(MOp::from_real(o), PUSH(_))));
        }
        Err(_) => {
            obs.label("invalid");
            obs.nontrivial();
        }
    }
    Ok(())
}

fn bytes_case() -> impl Strategy<Value = BytesCase> {
    prop_oneof![
        1 => proptest::collection::vec(any::<u8>(), 0..40),
        2 => proptest::collection::vec(prop_oneof![4 => (0..ALL.len()).prop_map(|i| ALL[i].opcode()), 1 => any::<u8>()], 0..40),
        // valid programs
        3 => programs::soup(30).prop_map(|ops| refasm::encode(&ops)),
        // invalid opcode at some position of a valid program
        2 => (programs::soup(20), any::<u32>(), any::<u8>()).prop_map(|(ops, pos, val)| {
            let (_, offs) = refasm::decode(&refasm::encode(&ops)).unwrap();
            let mut b = refasm::encode(&ops);
            if !offs.is_empty() {
                b[offs[gen::pick_ix(pos, offs.len())]] = val;
            }
            b
        }),
        // truncated Push at the end
        3 => (programs::soup(20), gen::word(), 0usize..8).prop_map(|(ops, w, keep)| {
            let mut b = refasm::encode(&ops);
            b.push(PUSH(0).opcode());
            b.extend_from_slice(&w.to_be_bytes()[..keep]);
            b
        }),
    ]
    .prop_map(BytesCase)
}

/// exec_bytecode (owned and borrowed) vs exec_ops from the same machine state.
fn oracle_exec(case: &ExecCase, obs: &mut Obs) -> Result<(), Violation> {
    // termination / breadth pre-screen
    let (mr, _, _, _) = run_model(case, 20_000, 64);
    use crate::model::vm::RunResult;
    if matches!(mr, RunResult::OverBudget | RunResult::ExcludedBreadth) {
        obs.skip("over budget / breadth");
        return Ok(());
    }
    let ops = to_real_ops(&case.prog);
    let bytes: Vec<u8> = refasm::encode(&case.prog);
    let sols = Arc::new(to_real_solutions(&case.solutions));
    let views = Views::from_spec(&case.state, None);
    let limit = GasLimit {
        per_yield: GasLimit::DEFAULT_PER_YIELD,
        total: case.limit,
    };
    let Some(mut vm0) = case.make_vm() else {
        obs.skip("init not constructible");
        return Ok(());
    };
    // a few machines start far beyond the end of the program (both entry points then have nothing to execute)
    if case.init.pc == 5 && case.prog.len() % 3 == 0 {
        vm0.pc = [usize::MAX, usize::MAX - 1, 1 << 32][case.prog.len() / 3 % 3];
        obs.label("start-pc-far-beyond-end");
    }
    let run = |mode: u8| -> Result<(essential_vm::Vm, Result<u64, String>), Violation> {
        let mut vm = vm0.clone();
        let gas = AuditGas::new(case.costs.clone());
        let access = Access::new(sols.clone(), case.index as u16);
        let r = no_panic("exec", || match mode {
            0 => vm.exec_ops(&ops, access, &views, &gas, limit),
            1 => {
                let m = BytecodeMapped::try_from(bytes.clone()).expect("valid");
                vm.exec_bytecode(&m, access, &views, &gas, limit)
            }
            _ => {
                let m = BytecodeMapped::try_from(&bytes[..]).expect("valid");
                vm.exec_bytecode(&m, access, &views, &gas, limit)
            }
        })?;
        Ok((vm, r.map_err(|e: essential_vm::error::ExecError<StErr>| format!("{e}"))))
    };
    let (vm_a, r_a) = run(0)?;
    for mode in [1u8, 2] {
        let (vm_b, r_b) = run(mode)?;
        let what = if mode == 1 { "exec_bytecode(owned)" } else { "exec_bytecode(borrowed)" };
        ensure!(r_a == r_b, "map:exec-result", "exec_ops returned {r_a:?}, {what} returned {r_b:?}");
        ensure!(
            vm_a == vm_b,
            "map:exec-state",
            "final machine states differ between exec_ops and {what}: pc {} vs {}, stack len {} vs {}, memory len {} vs {}",
            vm_a.pc,
            vm_b.pc,
            vm_a.stack.len(),
            vm_b.stack.len(),
            vm_a.memory.to_vec().len(),
            vm_b.memory.to_vec().len()
        );
    }
    let has_push = case.prog.iter().any(|o| matches!(o, PUSH(_)));
    let has_ctl = case.prog.iter().any(|o| matches!(o, JMPIF | REP | REPE | COM | HLT | HLTIF));
    obs.nontrivial_if(has_push && has_ctl);
    if r_a.is_err() {
        obs.label("error");
    } else {
        obs.label("ok");
    }
    Ok(())
}

/// Straight-line programs whose length sits around the sizes at which an index or a size constant could matter
/// (Program::MAX_SIZE = 10000, 2^15, 2^16): `PUSH 1, PUSH 2, SWAP * k, [JMPIF over a POP], PUSH 3`.
#[derive(Clone, Debug, Hash, Serialize, Deserialize)]
pub struct LongCase {
    pub ops: usize,
    pub tail_push: bool,
}

fn oracle_long(l: &LongCase, obs: &mut Obs) -> Result<(), Violation> {
    let mut prog = vec![PUSH(1), PUSH(2)];
    while prog.len() + 1 < l.ops {
        prog.push(SWAP);
    }
    prog.push(if l.tail_push { PUSH(3) } else { POP });
    let case = ExecCase::simple(prog);
    oracle_exec(&case, obs)?;
    obs.label("long");
    obs.nontrivial();
    Ok(())
}

fn long_case() -> impl Strategy<Value = LongCase> {
    (prop_oneof![4 => 9_990usize..10_020, 1 => 32_760usize..32_775, 2 => 65_530usize..65_545, 1 => 3usize..70_000], any::<bool>()).prop_map(|(ops, tail_push)| LongCase { ops, tail_push })
}

pub fn property() -> Property {
    Property {
        id: "C14",
        rule: "generated byte strings (random, opcode-biased, valid programs, an invalid opcode at any op position, a Push truncated to 0..7 immediate bytes at the end) mapped as Vec<u8>, &[u8] and Arc<[u8]> and compared with asm::from_bytes: success/failure and error kind+byte, ops(), op(i) and ops_from(i) for i in 0..len+3 and for far indices (10000, 2^16, 2^32, usize::MAX/2, usize::MAX-1, usize::MAX), op_indices vs byte offsets recomputed by RefAsm, FromIterator/push_op vs serialised bytes; generated programs (structured jumps/repeats/compute, jumps landing at/after/far beyond the end, op soup) from random machine states, gas tables and limits executed with exec_ops and exec_bytecode (owned, borrowed): equal Vm (PartialEq), equal gas or identical error rendering; straight-line programs of 9990..10020, ~2^15, ~2^16 and random up to 70000 ops executed to the end both ways. Non-trivial = (mapping) a Push is present or the string is invalid; (execution) a Push and a control transfer/compute are present.",
        assumptions: vec!["RefAsm byte offsets are the reference for op_indices"],
        health: vec![],
        subs: vec![
            prop_sub("map.bytes", 150_000, 1_200_000, |_| bytes_case(), oracle_bytes),
            prop_sub(
                "map.exec_equiv",
                100_000,
                800_000,
                |_| {
                    (prop_oneof![
                        3 => cases::exec_case(programs::structured(programs::StructCfg::default()), false).boxed(),
                        2 => cases::exec_case(programs::soup(30), true).boxed(),
                        3 => crate::props::c09::jump_case().boxed(),
                    ], prop_oneof![9 => Just(false), 1 => Just(true)])
                        .prop_map(|(mut c, halt)| {
                            c.halt = halt;
                            c
                        })
                },
                oracle_exec,
            ),
            prop_sub("map.long_programs", 160, 1_600, |_| long_case(), oracle_long),
        ],
    }
}
