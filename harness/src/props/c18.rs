//! C18 — Wire, text and serde codecs round-trip every value.

use crate::engine::{no_panic, prop_sub, Obs, Property, Violation};
use crate::gen::values::{self, ContractM, PredM};
use crate::gen::{self};
use crate::model::codec;
use crate::model::graph::{NodeSpec, PredSpec};
use crate::model::vm::MSolution;
use crate::real::to_real_solution;
use crate::{ensure, viol};
use essential_types::contract::SignedContract;
use essential_types::convert::*;
use essential_types::predicate::{Predicate, Program};
use essential_types::solution::decode::{decode_mutation, decode_mutations};
use essential_types::solution::encode::{encode_mutation, encode_mutation_size, encode_mutations};
use essential_types::solution::{Mutation, Solution, SolutionSet};
use essential_types::{ContentAddress, PredicateAddress, Signature};
use proptest::prelude::*;
use serde::{Deserialize, Serialize};

fn oracle_pred(p: &PredM, obs: &mut Obs) -> Result<(), Violation> {
    let real = p.to_real();
    if p.nodes.len() > 1000 || p.edges.len() > 1000 {
        ensure!(real.encode().is_err(), "rt:oversize-encoded", "oversize predicate encoded");
        obs.skip("beyond limits");
        return Ok(());
    }
    let bytes: Vec<u8> = no_panic("Predicate::encode", || real.encode().map(|i| i.collect::<Vec<u8>>()))?.map_err(|e| viol!("rt:encode-fails", "{e:?} for {} nodes / {} edges", p.nodes.len(), p.edges.len()))?;
    ensure!(bytes == codec::encode_predicate(&p.nodes, &p.edges), "rt:predicate-bytes", "predicate encoding differs from the documented layout");
    let back = no_panic("Predicate::decode", || Predicate::decode(&bytes))?.map_err(|e| viol!("rt:predicate-decode", "decode(encode(p)) fails: {e:?}"))?;
    ensure!(back == real, "rt:predicate-roundtrip", "decode(encode(p)) != p ({} nodes, {} edges)", p.nodes.len(), p.edges.len());
    // trailing bytes are ignored, truncation is an error
    let mut longer = bytes.clone();
    longer.extend([1, 2, 3]);
    ensure!(Predicate::decode(&longer).ok() == Some(real.clone()), "rt:predicate-trailing", "decode with trailing bytes differs");
    if !bytes.is_empty() {
        ensure!(Predicate::decode(&bytes[..bytes.len() - 1]).is_err(), "rt:predicate-truncated", "decode of a truncated encoding succeeded");
    }
    // node_edges == documented sub-range for every index
    let spec = PredSpec {
        nodes: p.nodes.iter().map(|n| NodeSpec { edge_start: n.0, prog: 0 }).collect(),
        edges: p.edges.clone(),
    };
    crate::props::c06::check_node_edges(&real, &spec)?;
    obs.nontrivial_if(!p.nodes.is_empty());
    Ok(())
}

#[derive(Clone, Debug, Hash, Serialize, Deserialize)]
pub struct Muts(pub Vec<(Vec<i64>, Vec<i64>)>);

fn oracle_muts(m: &Muts, obs: &mut Obs) -> Result<(), Violation> {
    let real: Vec<Mutation> = m.0.iter().map(|(k, v)| Mutation { key: k.clone(), value: v.clone() }).collect();
    let words: Vec<i64> = encode_mutations(&real).collect();
    ensure!(words == codec::encode_mutations(&m.0), "rt:mutations-words", "encode_mutations differs from the documented layout: {words:?}");
    let back = no_panic("decode_mutations", || decode_mutations(&words))?.map_err(|e| viol!("rt:mutations-decode", "decode_mutations(encode_mutations(l)) fails: {e:?} for {:?}", m.0))?;
    ensure!(back == real, "rt:mutations-roundtrip", "decode_mutations(encode_mutations(l)) = {back:?} != {real:?}");
    for mu in &real {
        let w: Vec<i64> = encode_mutation(mu).collect();
        ensure!(w.len() == encode_mutation_size(mu) && w.len() == mu.encode_size(), "rt:mutation-size", "encode size mismatch for {mu:?}");
        ensure!(mu.encode().collect::<Vec<_>>() == w, "rt:mutation-method", "Mutation::encode differs from encode_mutation");
        let b = no_panic("decode_mutation", || decode_mutation(&w))?.map_err(|e| viol!("rt:mutation-decode", "decode_mutation(encode_mutation(m)) fails: {e:?}"))?;
        ensure!(b == *mu, "rt:mutation-roundtrip", "decode_mutation(encode_mutation(m)) = {b:?} != {mu:?}");
        ensure!(Mutation::decode_mutation(&w).ok().as_ref() == Some(mu), "rt:mutation-method", "Mutation::decode_mutation differs");
    }
    if real.last().map(|m| m.key.is_empty() && m.value.is_empty()).unwrap_or(false) {
        obs.label("last-mutation-empty");
    }
    obs.nontrivial_if(!real.is_empty());
    Ok(())
}

fn muts() -> impl Strategy<Value = Muts> {
    let v = || prop_oneof![3 => Just(vec![]), 5 => proptest::collection::vec(gen::word(), 0..5), 1 => proptest::collection::vec(gen::word(), 10..30)];
    proptest::collection::vec((v(), v()), 0..20).prop_map(Muts)
}

#[derive(Clone, Debug, Hash, Serialize, Deserialize)]
pub struct ConvCase {
    pub words: Vec<i64>,
    pub b32: [u8; 32],
    pub b65: Vec<u8>,
    pub short: Vec<u8>,
}

fn oracle_convert(c: &ConvCase, obs: &mut Obs) -> Result<(), Violation> {
    for w in &c.words {
        let b = bytes_from_word(*w);
        // big-endian, stated independently
        let mut u = *w as u64;
        let mut want = [0u8; 8];
        for i in (0..8).rev() {
            want[i] = u as u8;
            u >>= 8;
        }
        ensure!(b == want, "rt:bytes-from-word", "bytes_from_word({w}) = {b:02x?}, big-endian bytes are {want:02x?}");
        ensure!(word_from_bytes(b) == *w, "rt:word-bytes", "word_from_bytes(bytes_from_word({w})) != {w}");
    }
    let hex = hex_str_from_words(&c.words);
    let want_hex = codec::hex_lower(&crate::model::vm::words_to_bytes(&c.words));
    ensure!(hex == want_hex, "rt:hex-from-words", "hex_str_from_words = {hex}, expected {want_hex}");
    let back = words_from_hex_str(&hex).map_err(|e| viol!("rt:hex-parse", "words_from_hex_str(hex_str_from_words(ws)) fails: {e}"))?;
    ensure!(back == c.words, "rt:hex-roundtrip", "hex round trip: {back:?} != {:?}", c.words);
    ensure!(hex_str_from_words(&back) == hex, "rt:hex-roundtrip", "hex -> words -> hex is not the identity");
    // upper-case input is accepted too
    ensure!(words_from_hex_str(&hex.to_uppercase()).ok() == Some(c.words.clone()), "rt:hex-upper", "upper-case hex is not parsed to the same words");
    // fixed width arrays
    let w4 = word_4_from_u8_32(c.b32);
    ensure!(w4.to_vec() == crate::model::vm::bytes_to_words(&c.b32), "rt:word4", "word_4_from_u8_32 is not 4 big-endian words");
    ensure!(u8_32_from_word_4(w4) == c.b32, "rt:word4-roundtrip", "u8_32_from_word_4(word_4_from_u8_32(b)) != b");
    let b64: [u8; 64] = c.b65[..64].try_into().unwrap();
    let w8 = word_8_from_u8_64(b64);
    ensure!(w8.to_vec() == crate::model::vm::bytes_to_words(&b64), "rt:word8", "word_8_from_u8_64 is not 8 big-endian words");
    ensure!(u8_64_from_word_8(w8) == b64, "rt:word8-roundtrip", "u8_64_from_word_8(word_8_from_u8_64(b)) != b");
    if c.words.len() >= 8 {
        let ws8: [i64; 8] = c.words[..8].try_into().unwrap();
        ensure!(word_8_from_u8_64(u8_64_from_word_8(ws8)) == ws8, "rt:word8-roundtrip", "word_8_from_u8_64(u8_64_from_word_8(w)) != w");
        let ws4: [i64; 4] = c.words[..4].try_into().unwrap();
        ensure!(word_4_from_u8_32(u8_32_from_word_4(ws4)) == ws4, "rt:word4-roundtrip", "word_4_from_u8_32(u8_32_from_word_4(w)) != w");
        let ca: ContentAddress = ws4.into();
        let back: [i64; 4] = ca.clone().into();
        ensure!(back == ws4 && <[u8; 32]>::from(ca.clone()) == u8_32_from_word_4(ws4), "rt:content-address-words", "ContentAddress <-> [Word;4] is not the identity");
    }
    let ca = ContentAddress::from(c.b32);
    ensure!(<[u8; 32]>::from(ca.clone()) == c.b32 && <[i64; 4]>::from(ca.clone()).to_vec() == crate::model::vm::bytes_to_words(&c.b32), "rt:content-address-bytes", "ContentAddress <-> [u8;32] is not the identity");
    let b65: [u8; 65] = c.b65[..65].try_into().unwrap();
    let sig = Signature::from(b65);
    ensure!(sig.0[..] == b65[..64] && sig.1 == b65[64], "rt:signature-bytes", "Signature::from([u8;65]) misplaces bytes");
    ensure!(<[u8; 65]>::from(sig.clone()) == b65, "rt:signature-roundtrip", "Signature <-> [u8;65] is not the identity");
    // word_from_bytes_slice: first (up to) 8 bytes, zero padded on the right
    let mut padded = [0u8; 8];
    let n = c.short.len().min(8);
    padded[..n].copy_from_slice(&c.short[..n]);
    ensure!(word_from_bytes_slice(&c.short) == word_from_bytes(padded), "rt:word-from-slice", "word_from_bytes_slice({:02x?}) differs from the zero-padded word", c.short);
    ensure!(bool_from_word(0) == Some(false) && bool_from_word(1) == Some(true), "rt:bool", "bool_from_word");
    for w in &c.words {
        if *w != 0 && *w != 1 {
            ensure!(bool_from_word(*w).is_none(), "rt:bool", "bool_from_word({w}) is Some");
        }
    }
    // Display / FromStr
    let s = ca.to_string();
    ensure!(s == codec::hex_upper(&c.b32), "rt:display-address", "ContentAddress displays as {s}, expected upper hex");
    ensure!(s.parse::<ContentAddress>().ok() == Some(ca.clone()), "rt:fromstr-address", "ContentAddress to_string().parse() is not the identity");
    ensure!(format!("{ca:x}") == codec::hex_lower(&c.b32) && format!("{ca:X}") == s, "rt:hex-fmt-address", "LowerHex/UpperHex of ContentAddress");
    ensure!(codec::hex_lower(&c.b32).parse::<ContentAddress>().ok() == Some(ca.clone()), "rt:fromstr-address", "lower-case hex is not parsed");
    let ss = sig.to_string();
    ensure!(ss == codec::hex_upper(&b65), "rt:display-signature", "Signature displays as {ss}");
    ensure!(ss.parse::<Signature>().ok() == Some(sig.clone()), "rt:fromstr-signature", "Signature to_string().parse() is not the identity");
    ensure!(format!("{sig:x}") == codec::hex_lower(&b65) && format!("{sig:X}") == ss, "rt:hex-fmt-signature", "LowerHex/UpperHex of Signature");
    ensure!(s[..s.len() - 1].parse::<ContentAddress>().is_err() && format!("{s}00").parse::<ContentAddress>().is_err(), "rt:fromstr-length", "wrong-length address strings are accepted");
    let pa = PredicateAddress {
        contract: ca.clone(),
        predicate: ContentAddress::from(u8_32_from_word_4([1, 2, 3, 4])),
    };
    ensure!(pa.to_string() == format!("{}:{}", pa.contract, pa.predicate), "rt:display-predicate-address", "PredicateAddress display is not contract:predicate");
    obs.nontrivial_if(c.words.iter().any(|w| *w != 0) || c.b32 != [0; 32]);
    Ok(())
}

fn conv_case() -> impl Strategy<Value = ConvCase> {
    (proptest::collection::vec(gen::word(), 0..12), gen::bytes32(), proptest::collection::vec(any::<u8>(), 65), proptest::collection::vec(any::<u8>(), 0..12)).prop_map(|(words, b32, b65, short)| ConvCase { words, b32, b65, short })
}

#[derive(Clone, Debug, Hash, Serialize, Deserialize)]
pub struct SerdeCase {
    pub contract: ContractM,
    pub sig: Vec<u8>,
    pub sols: Vec<MSolution>,
    pub program: Vec<u8>,
}

fn rt<T: Serialize + for<'a> Deserialize<'a> + PartialEq + std::fmt::Debug>(what: &str, v: &T) -> Result<serde_json::Value, Violation> {
    let js = no_panic("serde_json::to_string", || serde_json::to_string(v))?.map_err(|e| viol!("rt:json-serialize", "{what}: {e}"))?;
    let back: T = serde_json::from_str(&js).map_err(|e| viol!("rt:json-deserialize", "{what}: JSON {js} does not deserialise: {e}"))?;
    ensure!(back == *v, "rt:json-roundtrip", "{what}: JSON round trip changed the value: {back:?} != {v:?}");
    // other human-readable sources: an owned JSON tree, a reader (no borrowed strings), pretty-printed text
    let tree = serde_json::to_value(v).map_err(|e| viol!("rt:json-serialize", "{what}: {e}"))?;
    let back: T = serde_json::from_value(tree).map_err(|e| viol!("rt:json-deserialize", "{what}: does not deserialise from a JSON value tree: {e}"))?;
    ensure!(back == *v, "rt:json-roundtrip", "{what}: JSON value-tree round trip changed the value");
    let back: T = serde_json::from_reader(js.as_bytes()).map_err(|e| viol!("rt:json-deserialize", "{what}: does not deserialise from a reader: {e}"))?;
    ensure!(back == *v, "rt:json-roundtrip", "{what}: JSON reader round trip changed the value");
    let pretty = serde_json::to_string_pretty(v).map_err(|e| viol!("rt:json-serialize", "{what}: {e}"))?;
    let back: T = serde_json::from_str(&pretty).map_err(|e| viol!("rt:json-deserialize", "{what}: pretty JSON does not deserialise: {e}"))?;
    ensure!(back == *v, "rt:json-roundtrip", "{what}: pretty JSON round trip changed the value");
    let pc = no_panic("postcard::to_allocvec", || postcard::to_allocvec(v))?.map_err(|e| viol!("rt:postcard-serialize", "{what}: {e}"))?;
    let back: T = postcard::from_bytes(&pc).map_err(|e| viol!("rt:postcard-deserialize", "{what}: postcard bytes do not deserialise: {e} ({} bytes)", pc.len()))?;
    ensure!(back == *v, "rt:postcard-roundtrip", "{what}: postcard round trip changed the value: {back:?} != {v:?}");
    serde_json::to_value(v).map_err(|e| viol!("rt:json-serialize", "{what}: {e}"))
}

fn oracle_serde(c: &SerdeCase, obs: &mut Obs) -> Result<(), Violation> {
    let contract = c.contract.to_real();
    let b65: [u8; 65] = c.sig[..65].try_into().unwrap();
    let signature = Signature::from(b65);
    let signed = SignedContract {
        contract: contract.clone(),
        signature: signature.clone(),
    };
    let j = rt("Contract", &contract)?;
    ensure!(j["salt"] == serde_json::json!(codec::hex_upper(&c.contract.salt)), "rt:json-shape", "Contract.salt is not an upper-hex string in JSON: {}", j["salt"]);
    rt("SignedContract", &signed)?;
    let j = rt("Signature", &signature)?;
    ensure!(j == serde_json::json!(codec::hex_upper(&b65)), "rt:json-shape", "Signature is not a 130-char upper-hex string in JSON: {j}");
    // binary form of a signature: a sequence of 65 bytes
    let pc = postcard::to_allocvec(&signature).map_err(|e| viol!("rt:postcard-serialize", "{e}"))?;
    ensure!(pc.len() == 66 && pc[0] == 65 && pc[1..] == b65[..], "rt:postcard-shape", "Signature's binary form is not a length-prefixed sequence of its 65 bytes");
    for p in &c.contract.preds {
        let real = p.to_real();
        let j = rt("Predicate", &real)?;
        if let Some(n) = p.nodes.first() {
            ensure!(j["nodes"][0]["program_address"] == serde_json::json!(codec::hex_upper(&n.1)), "rt:json-shape", "program_address is not upper hex in JSON");
        }
    }
    let program = Program(c.program.clone());
    let j = rt("Program", &program)?;
    ensure!(j == serde_json::json!(codec::hex_lower(&c.program)), "rt:json-shape", "Program is not a hex string in JSON: {j}");
    let sols: Vec<Solution> = c.sols.iter().map(to_real_solution).collect();
    for (s, m) in sols.iter().zip(&c.sols) {
        let j = rt("Solution", s)?;
        ensure!(j["predicate_to_solve"]["contract"] == serde_json::json!(codec::hex_upper(&m.contract)), "rt:json-shape", "contract address is not upper hex in JSON");
        rt("PredicateAddress", &s.predicate_to_solve)?;
        rt("ContentAddress", &s.predicate_to_solve.predicate)?;
        for mu in &s.state_mutations {
            rt("Mutation", mu)?;
        }
        // legacy field name accepted on input
        let mut legacy = j.clone();
        let pd = legacy.as_object_mut().and_then(|o| o.remove("predicate_data")).unwrap_or_default();
        legacy["decision_variables"] = pd;
        let back: Solution = serde_json::from_value(legacy).map_err(|e| viol!("rt:legacy-name", "`decision_variables` is not accepted: {e}"))?;
        ensure!(back == *s, "rt:legacy-name", "`decision_variables` deserialises to a different solution");
        // binary form equals the hand-written postcard encoding
        let pc = postcard::to_allocvec(s).map_err(|e| viol!("rt:postcard-serialize", "{e}"))?;
        ensure!(pc == codec::postcard_solution(&m.contract, &m.predicate, &m.data, &m.mutations), "rt:postcard-shape", "postcard(Solution) differs from the documented wire format");
    }
    let set = SolutionSet { solutions: sols };
    let j = rt("SolutionSet", &set)?;
    let mut legacy = j.clone();
    let so = legacy.as_object_mut().and_then(|o| o.remove("solutions")).unwrap_or_default();
    legacy["data"] = so;
    let back: SolutionSet = serde_json::from_value(legacy).map_err(|e| viol!("rt:legacy-name", "`data` is not accepted: {e}"))?;
    ensure!(back == set, "rt:legacy-name", "`data` deserialises to a different set");
    if c.contract.salt == [0; 32] {
        obs.label("zero-salt");
    }
    obs.nontrivial_if(!c.contract.preds.is_empty() || !c.sols.is_empty());
    Ok(())
}

fn serde_case() -> impl Strategy<Value = SerdeCase> {
    (values::contract(), proptest::collection::vec(any::<u8>(), 65), values::solutions(3), proptest::collection::vec(any::<u8>(), 0..40)).prop_map(|(contract, sig, sols, program)| SerdeCase { contract, sig, sols, program })
}

pub fn property() -> Property {
    Property {
        id: "C18",
        rule: "generated predicates (0..8, 25..70, 999/1000 nodes and edges, any edge_start incl. the leaf marker), mutation lists (0..20 mutations, empty keys/values incl. an empty-key/empty-value mutation last), words, [u8;32]/[u8;64]/[u8;65]/[Word;4]/[Word;8], byte slices of 0..11 bytes, contracts (zero and non-zero salts), signed contracts, programs, solutions, sets, addresses, signatures. Oracle: decode(encode(x)) == x and encodings equal RefCodec's; conversions are identities in both directions and equal big-endian arithmetic restated in the harness; serde_json and postcard round trips for all ten public types with JSON shape checks (upper-hex addresses/signatures/salts, hex bytecode), postcard(Solution) equal to a hand-written postcard encoder, the legacy names `data` / `decision_variables` accepted; Display/FromStr round trips and formats; node_edges(i) == documented sub-range for every i in 0..=n+1. Non-trivial = non-default, non-empty value.",
        assumptions: vec!["hex strings: lower-case output of hex_str_from_words, upper-case Display; both cases accepted on input"],
        health: vec![("rt.mutations", "last-mutation-empty", 20), ("rt.serde", "zero-salt", 30)],
        subs: vec![
            prop_sub("rt.predicate", 80_000, 640_000, |_| values::pred(), oracle_pred),
            prop_sub("rt.mutations", 200_000, 1_600_000, |_| muts(), oracle_muts),
            prop_sub("rt.convert_display", 150_000, 1_200_000, |_| conv_case(), oracle_convert),
            prop_sub("rt.serde", 60_000, 480_000, |_| serde_case(), oracle_serde),
        ],
    }
}
