//! Property registry.

use crate::engine::Property;

pub mod c13;

pub fn ids() -> Vec<&'static str> {
    vec!["C13"]
}

pub fn property(id: &str) -> Option<Property> {
    Some(match id {
        "C13" => c13::property(),
        _ => return None,
    })
}

/// Probes for known findings: (signature, args for `ebv probe`).
pub fn probes(_id: &str) -> Vec<(String, Vec<String>)> {
    vec![]
}

pub fn run_probe(_args: &[String]) -> i32 {
    0
}
