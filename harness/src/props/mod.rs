//! Property registry.

use crate::engine::Property;

pub mod c01;
pub mod c02;
pub mod c03;
pub mod c04;
pub mod c05;
pub mod c06;
pub mod c07;
pub mod c08;
pub mod c09;
pub mod c10;
pub mod c11;
pub mod c12;
pub mod c13;
pub mod c14;
pub mod c15;
pub mod c16;
pub mod c17;
pub mod c18;
pub mod c19;
pub mod c20;

pub fn ids() -> Vec<&'static str> {
    vec!["C01", "C02", "C03", "C04", "C05", "C06", "C07", "C08", "C09", "C10", "C11", "C12", "C13", "C14", "C15", "C16", "C17", "C18", "C19", "C20"]
}

pub fn property(id: &str) -> Option<Property> {
    let mut p = property_base(id)?;
    p.subs.extend(crate::fuzzing::subs_for(p.id));
    Some(p)
}

fn property_base(id: &str) -> Option<Property> {
    Some(match id {
        "C01" => c01::property(),
        "C02" => c02::property(),
        "C03" => c03::property(),
        "C04" => c04::property(),
        "C05" => c05::property(),
        "C06" => c06::property(),
        "C07" => c07::property(),
        "C08" => c08::property(),
        "C09" => c09::property(),
        "C10" => c10::property(),
        "C11" => c11::property(),
        "C12" => c12::property(),
        "C13" => c13::property(),
        "C14" => c14::property(),
        "C15" => c15::property(),
        "C16" => c16::property(),
        "C17" => c17::property(),
        "C18" => c18::property(),
        "C19" => c19::property(),
        "C20" => c20::property(),
        _ => return None,
    })
}

/// Probes for known findings: (signature, args for `ebv probe`).
pub fn probes(id: &str) -> Vec<(String, Vec<String>)> {
    match id {
        "C05" => vec![("compute:unbounded-breadth".to_string(), vec!["compute-breadth".to_string()])],
        _ => vec![],
    }
}

pub fn run_probe(args: &[String]) -> i32 {
    match args.first().map(|s| s.as_str()) {
        Some("compute-breadth") => c05::probe_compute_breadth(),
        _ => 2,
    }
}
