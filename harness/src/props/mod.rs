//! Property registry.

use crate::engine::Property;

pub mod c08;
pub mod c09;
pub mod c13;

pub fn ids() -> Vec<&'static str> {
    vec!["C08", "C09", "C13"]
}

pub fn property(id: &str) -> Option<Property> {
    Some(match id {
        "C08" => c08::property(),
        "C09" => c09::property(),
        "C13" => c13::property(),
        _ => return None,
    })
}

/// Probes for known findings: (signature, args for `ebv probe`).
pub fn probes(_id: &str) -> Vec<(String, Vec<String>)> {
    vec![]
}

pub fn run_probe(_args: &[String]) -> i32 {
    0
}
