//! C04 — A solution set is a set: results do not depend on solution order.

use crate::chk::{build_world, run_real, RealRun, RunEnv};
use crate::engine::{no_panic, prop_sub, Obs, Property, Violation};
use crate::gen::graphs::{build_case, GraphCfg};
use crate::model::graph::GraphCase;
use crate::{ensure, viol};
use essential_check::solution::check_set;
use proptest::prelude::*;
use serde::{Deserialize, Serialize};
use std::collections::{BTreeMap, BTreeSet};

#[derive(Clone, Debug, Hash, Serialize, Deserialize)]
pub struct PermCase {
    pub case: GraphCase,
    pub perm_choices: Vec<u32>,
}

fn permutation(n: usize, choices: &[u32]) -> Vec<usize> {
    let mut p: Vec<usize> = (0..n).collect();
    for i in (1..n).rev() {
        let c = choices.get(n - 1 - i).copied().unwrap_or(0);
        let j = ((c as u64 * (i as u64 + 1)) >> 32) as usize;
        p.swap(i, j);
    }
    p
}

fn permuted(case: &GraphCase, perm: &[usize]) -> GraphCase {
    let mut c = case.clone();
    c.solutions = perm.iter().map(|i| case.solutions[*i].clone()).collect();
    c
}

/// Canonical description of a run that does not mention solution positions: keyed by the solution itself.
fn by_solution(case: &GraphCase, run: &RealRun) -> Option<BTreeMap<String, Vec<Vec<(Vec<i64>, Vec<i64>)>>>> {
    let fm = run.final_mutations.as_ref()?;
    let mut m: BTreeMap<String, Vec<Vec<(Vec<i64>, Vec<i64>)>>> = BTreeMap::new();
    for (si, s) in case.solutions.iter().enumerate() {
        let mut computed = fm[si][s.mutations.len().min(fm[si].len())..].to_vec();
        computed.sort();
        m.entry(format!("{s:?}")).or_default().push(computed);
    }
    for v in m.values_mut() {
        v.sort();
    }
    Some(m)
}

fn oracle(pc: &PermCase, obs: &mut Obs) -> Result<(), Violation> {
    let case = &pc.case;
    let n = case.solutions.len();
    let perm = permutation(n, &pc.perm_choices);
    let identity = perm.iter().enumerate().all(|(i, p)| i == *p);
    let case2 = permuted(case, &perm);
    let w1 = build_world(case);
    let w2 = build_world(&case2);
    // content address
    let a1 = no_panic("content_addr(set)", || essential_hash::content_addr(&w1.set))?;
    let a2 = no_panic("content_addr(set)", || essential_hash::content_addr(&w2.set))?;
    // set validation
    let v1 = no_panic("check_set", || check_set(&w1.set).is_ok())?;
    let v2 = no_panic("check_set", || check_set(&w2.set).is_ok())?;
    ensure!(v1 == v2, "set:check_set-order", "check_set accepts the set in one order ({v1}) but not in the other ({v2}); permutation {perm:?}");
    // independent statement of "one value per contract and key"
    let mut slots = BTreeSet::new();
    let mut collision = false;
    for s in &case.solutions {
        for (k, _) in &s.mutations {
            if !slots.insert((s.contract, k.clone())) {
                collision = true;
            }
        }
    }
    if v1 {
        ensure!(!collision, "set:two-values-for-a-slot", "check_set accepts a set that proposes two values for one contract and key");
        ensure!(a1 == a2, "set:address-order", "content address depends on the order of the solutions: {a1} vs {a2}; permutation {perm:?}");
        obs.label("accepted-by-check_set");
    } else {
        obs.label("rejected-by-check_set");
        if collision {
            obs.label("slot-collision-rejected");
        }
        obs.nontrivial_if(collision && n >= 2);
        return Ok(()); // two-pass checking requires a validated set
    }
    // two-pass verdict
    let env = RunEnv { log: None, delay: None };
    let r1 = run_real(case, &w1, &env)?;
    let r2 = run_real(&case2, &w2, &env)?;
    ensure!(
        r1.error.is_some() == r2.error.is_some(),
        "set:verdict-order",
        "two-pass verdict depends on the order of the solutions: {:?} vs {:?}; permutation {perm:?}",
        r1.error.as_ref().map(|e| &e.1),
        r2.error.as_ref().map(|e| &e.1)
    );
    if r1.error.is_none() {
        ensure!(r1.gas == r2.gas, "set:gas-order", "total gas depends on the order: {:?} vs {:?}", r1.gas, r2.gas);
        let m1 = by_solution(case, &r1).ok_or_else(|| viol!("harness:no-set", "no returned set"))?;
        let m2 = by_solution(&case2, &r2).ok_or_else(|| viol!("harness:no-set", "no returned set"))?;
        ensure!(m1 == m2, "set:computed-order", "computed mutations per solution depend on the order: {m1:?} vs {m2:?}");
        // the returned set still proposes at most one value per contract and key
        let fm = r1.final_mutations.as_ref().unwrap();
        let mut slots = BTreeSet::new();
        for (si, s) in case.solutions.iter().enumerate() {
            for (k, _) in &fm[si] {
                ensure!(
                    slots.insert((s.contract, k.clone())),
                    "set:returned-two-values-for-a-slot",
                    "the set returned by the two-pass check proposes two values for contract {:02x}.. key {k:?}",
                    s.contract[0]
                );
            }
        }
        obs.label("two-pass-ok");
    } else {
        obs.label("two-pass-rejects");
    }
    let shared_contract = case.solutions.iter().enumerate().any(|(i, a)| case.solutions.iter().skip(i + 1).any(|b| a.contract == b.contract));
    if shared_contract {
        obs.label("shared-contract");
    }
    obs.nontrivial_if(n >= 2 && !identity && shared_contract);
    Ok(())
}

fn perm_case() -> impl Strategy<Value = PermCase> {
    let cfg = GraphCfg {
        max_nodes: 6,
        max_solutions: 6,
        post_weight: 4,
        corrupt_pct: 0,
        dangling_pct: 0,
        failing: false,
        two_pass_only: true,
        slot_collision_pct: 15,
        duplicate_solution_pct: 12,
        hostile: false,
        calm: false,
        bulk_pct: 4,
    };
    (proptest::collection::vec(any::<u32>(), 60..700), proptest::collection::vec(any::<u32>(), 0..8)).prop_map(move |(c, p)| PermCase {
        case: build_case(c, &cfg),
        perm_choices: p,
    })
}

/// Programs can ask whether some solution of the set solves a predicate with given data (PredicateExists): the
/// answer is about the *set*, so it must not depend on where the solutions stand in the list.
#[derive(Clone, Debug, Hash, Serialize, Deserialize)]
pub struct PexOrder {
    pub case: crate::real::ExecCase,
    pub perm_choices: Vec<u32>,
}

fn oracle_pex_order(pc: &PexOrder, obs: &mut Obs) -> Result<(), Violation> {
    // as generated
    crate::props::c12::oracle(&pc.case, obs)?;
    // permuted: the executing solution keeps its identity (its index moves with it)
    let n = pc.case.solutions.len();
    let perm = permutation(n, &pc.perm_choices);
    let mut c = pc.case.clone();
    c.solutions = perm.iter().map(|i| pc.case.solutions[*i].clone()).collect();
    c.index = perm.iter().position(|i| *i == pc.case.index).unwrap_or(0);
    let mut o2 = Obs::default();
    crate::props::c12::oracle(&c, &mut o2).map_err(|mut v| {
        v.signature = format!("set:pex-order:{}", v.signature);
        v.message = format!("after permuting the solutions with {perm:?}: {}", v.message);
        v
    })?;
    let shared = (0..n).any(|i| (0..i).any(|j| pc.case.solutions[i].contract == pc.case.solutions[j].contract && pc.case.solutions[i].predicate == pc.case.solutions[j].predicate));
    if shared {
        obs.label("several-solutions-of-one-predicate");
    }
    obs.nontrivial_if(n >= 2 && perm.iter().enumerate().any(|(i, p)| i != *p));
    Ok(())
}

pub fn property() -> Property {
    Property {
        id: "C04",
        rule: "generated solution sets of 1..6 solutions (7 with a verbatim duplicate) over shared and distinct contracts, shared predicates, overlapping key universes, declared mutations (15% deliberately colliding across solutions), emit leaves computing mutations whose keys can collide with other solutions' declared keys, cross-solution post-state reads; paired with a generated permutation of the solutions. Metamorphic oracle: content address equal, check_set verdict equal, and - if check_set accepts - two-pass verdict (Ok/Err) equal, total gas equal, computed mutations per solution equal (matched by solution value, not position); plus the direct invariant: an accepted set and the set returned by the two-pass check propose at most one value per (contract, key). PredicateExists look-ups (what programs can observe of the other solutions) are executed against the set in generated and in permuted order, both compared with RefVm. Non-trivial = >= 2 solutions, a non-identity permutation and two solutions sharing a contract (or a colliding set that must be rejected).",
        assumptions: vec!["which solution an error is attributed to may depend on the order; only Ok vs Err is compared"],
        health: vec![("set.permute", "accepted-by-check_set", 500), ("set.permute", "two-pass-ok", 150), ("set.permute", "slot-collision-rejected", 10)],
        subs: vec![
            prop_sub("set.permute", 160_000, 1_280_000, |_| perm_case(), oracle),
            prop_sub(
                "set.predicate_exists_order",
                24_000,
                200_000,
                |_| (crate::props::c12::pex_case(), proptest::collection::vec(any::<u32>(), 6)).prop_map(|(case, perm_choices)| PexOrder { case, perm_choices }),
                oracle_pex_order,
            ),
        ],
    }
}
