//! C20 — The lock serialises closures: no lost updates under contention.

use crate::engine::{prop_sub, Obs, Property, Violation};
use crate::{ensure, viol};
use essential_lock::StdLock;
use proptest::prelude::*;
use serde::{Deserialize, Serialize};
use std::sync::Arc;

#[derive(Clone, Debug, Hash, Serialize, Deserialize)]
pub enum Delay {
    None,
    Yield,
    Spin(u32),
    /// Sleep inside the closure (milliseconds): long critical sections.
    Sleep(u8),
}

#[derive(Clone, Debug, Hash, Serialize, Deserialize)]
pub struct Op {
    pub lock: u8,
    pub delay: Delay,
    /// also take the next lock (fixed global order) inside the closure
    pub nested: bool,
}

#[derive(Clone, Debug, Hash, Serialize, Deserialize)]
pub struct Workload {
    pub locks: u8,
    pub threads: Vec<Vec<Op>>,
}

#[derive(Default)]
struct Guarded {
    counter: u64,
    last_writer: (usize, usize),
    log: Vec<(usize, usize, u64)>,
}

fn delay(d: &Delay) {
    match d {
        Delay::None => {}
        Delay::Yield => std::thread::yield_now(),
        Delay::Spin(n) => crate::doubles::spin(*n as u64),
        Delay::Sleep(ms) => std::thread::sleep(std::time::Duration::from_millis(*ms as u64)),
    }
}

fn oracle(w: &Workload, obs: &mut Obs) -> Result<(), Violation> {
    let nlocks = w.locks.max(1) as usize;
    let locks: Arc<Vec<StdLock<Guarded>>> = Arc::new((0..nlocks).map(|_| StdLock::new(Guarded::default())).collect());
    let barrier = Arc::new(std::sync::Barrier::new(w.threads.len()));
    let (tx, rx) = std::sync::mpsc::channel::<(usize, Result<(), String>)>();
    for (ti, ops) in w.threads.iter().enumerate() {
        let locks = locks.clone();
        let ops = ops.clone();
        let barrier = barrier.clone();
        let tx = tx.clone();
        std::thread::spawn(move || {
            let body = std::panic::catch_unwind(std::panic::AssertUnwindSafe(|| -> Result<(), String> {
                barrier.wait();
                for (oi, op) in ops.iter().enumerate() {
                    let li = op.lock as usize % locks.len();
                    // non-atomic read-modify-write with a widened race window
                    let returned = locks[li].apply(|g| {
                        let seen = g.counter;
                        delay(&op.delay);
                        if op.nested && li + 1 < locks.len() {
                            // non-reentrant nested use in a fixed global order
                            locks[li + 1].apply(|h| {
                                let s = h.counter;
                                h.counter = s + 1;
                                h.log.push((ti, oi, s));
                                h.last_writer = (ti, oi);
                            });
                        }
                        g.counter = seen + 1;
                        g.last_writer = (ti, oi);
                        g.log.push((ti, oi, seen));
                        (seen, ti, oi)
                    });
                    // every call returns its closure's value
                    if returned.1 != ti || returned.2 != oi {
                        return Err(format!("thread {ti} op {oi}: apply returned another closure's value {returned:?}"));
                    }
                }
                Ok(())
            }));
            let r = match body {
                Ok(r) => r,
                Err(p) => {
                    let msg = p.downcast_ref::<String>().cloned().or_else(|| p.downcast_ref::<&str>().map(|s| s.to_string())).unwrap_or_default();
                    Err(format!("thread {ti} panicked: {msg}"))
                }
            };
            let _ = tx.send((ti, r));
        });
    }
    drop(tx);
    // All threads report back. While no call has failed the wait is unbounded (a hang is the watchdog's business and is
    // reported as inconclusive); once a call *has* failed the violation is certain, and threads that the failure left
    // parked are given a few seconds and then abandoned instead of turning the run into a hang.
    let mut thread_errors = Vec::new();
    let mut done = 0usize;
    let mut first_error_at: Option<std::time::Instant> = None;
    while done < w.threads.len() {
        let got = match first_error_at {
            None => rx.recv().ok(),
            Some(t0) => match rx.recv_timeout(std::time::Duration::from_secs(2).saturating_sub(t0.elapsed())) {
                Ok(x) => Some(x),
                Err(_) => None,
            },
        };
        match got {
            Some((_, Ok(()))) => done += 1,
            Some((_, Err(e))) => {
                done += 1;
                thread_errors.push(e);
                first_error_at.get_or_insert_with(std::time::Instant::now);
            }
            None => {
                thread_errors.push(format!("{} thread(s) never returned after that failure", w.threads.len() - done));
                break;
            }
        }
    }
    thread_errors.sort();
    ensure!(thread_errors.is_empty(), "lock:call-failed", "{}", thread_errors.join("; "));
    // history invariants
    let mut expected = vec![0u64; nlocks];
    for ops in &w.threads {
        for op in ops {
            let li = op.lock as usize % nlocks;
            expected[li] += 1;
            if op.nested && li + 1 < nlocks {
                expected[li + 1] += 1;
            }
        }
    }
    for (li, l) in locks.iter().enumerate() {
        let (counter, log) = l.apply(|g| (g.counter, g.log.clone()));
        ensure!(
            counter == expected[li],
            "lock:lost-update",
            "lock {li}: counter is {counter} after {} read-modify-write closures",
            expected[li]
        );
        ensure!(log.len() as u64 == expected[li], "lock:lost-log-entry", "lock {li}: {} log entries for {} closures", log.len(), expected[li]);
        for (i, (_, _, seen)) in log.iter().enumerate() {
            ensure!(
                *seen == i as u64,
                "lock:not-serialised",
                "lock {li}: closure number {i} observed counter {seen}: it did not see all closures completed before it"
            );
        }
        // per-thread program order
        let mut last: std::collections::BTreeMap<usize, usize> = Default::default();
        for (t, o, _) in &log {
            if let Some(prev) = last.get(t) {
                ensure!(prev <= o, "lock:program-order", "lock {li}: thread {t} op {o} logged after op {prev}");
            }
            last.insert(*t, *o);
        }
    }
    let total: usize = w.threads.iter().map(|t| t.len()).sum();
    let delayed = w.threads.iter().flatten().any(|o| !matches!(o.delay, Delay::None));
    if w.threads.iter().flatten().any(|o| matches!(o.delay, Delay::Sleep(_))) {
        obs.label("long-critical-section");
    }
    if w.threads.iter().flatten().any(|o| o.nested) && nlocks >= 2 {
        obs.label("nested-locks");
    }
    obs.nontrivial_if(w.threads.len() >= 2 && total >= 50 && delayed);
    Ok(())
}

fn workload() -> impl Strategy<Value = Workload> {
    let op = |locks: u8| {
        (
            0..locks.max(1),
            prop_oneof![4 => Just(Delay::None), 3 => Just(Delay::Yield), 4 => (0u32..3000).prop_map(Delay::Spin), 1 => Just(Delay::Spin(40_000))],
            prop_oneof![5 => Just(false), 1 => Just(true)],
        )
            .prop_map(|(lock, delay, nested)| Op { lock, delay, nested })
    };
    (1u8..4, 2usize..17).prop_flat_map(move |(locks, nthreads)| {
        (Just(locks), proptest::collection::vec(proptest::collection::vec(op(locks), 1..120), nthreads), proptest::option::weighted(0.25, (any::<u32>(), 5u8..25)))
            .prop_map(|(locks, mut threads, long)| {
                // occasionally one long critical section (several ms) while others wait
                if let Some((pos, ms)) = long {
                    let t = crate::gen::pick_ix(pos, threads.len());
                    if let Some(o) = threads[t].first_mut() {
                        o.delay = Delay::Sleep(ms);
                    }
                }
                Workload { locks, threads }
            })
    })
}

/// Fault: a closure panics half-way through a two-field update. Later closures (any thread) must either be refused
/// or see a consistent state - a torn update must never be observed.
#[derive(Clone, Debug, Hash, Serialize, Deserialize)]
pub struct PoisonCase {
    pub threads: u8,
    pub transfers_before: u8,
    pub amount: i64,
}

fn oracle_poison(pc: &PoisonCase, obs: &mut Obs) -> Result<(), Violation> {
    let lock = Arc::new(StdLock::new((100i64, 0i64)));
    let total = 100i64;
    // a few clean transfers first
    for _ in 0..pc.transfers_before {
        lock.apply(|(a, b)| {
            *a -= 1;
            *b += 1;
        });
    }
    // the faulting closure: first write done, second not
    let l2 = lock.clone();
    let amount = pc.amount;
    let faulted = std::thread::spawn(move || {
        let r = std::panic::catch_unwind(std::panic::AssertUnwindSafe(|| {
            l2.apply(|(a, _b)| {
                *a -= amount;
                panic!("injected fault between the two writes");
            })
        }));
        r.is_err()
    })
    .join()
    .unwrap_or(true);
    ensure!(faulted, "harness:fault", "fault was not injected");
    // observers on several threads
    let mut handles = Vec::new();
    for _ in 0..pc.threads.max(1) {
        let l = lock.clone();
        handles.push(std::thread::spawn(move || std::panic::catch_unwind(std::panic::AssertUnwindSafe(|| l.apply(|(a, b)| (*a, *b)))).ok()));
    }
    for h in handles {
        if let Ok(Some((a, b))) = h.join() {
            ensure!(
                a + b == total,
                "lock:torn-state-observed",
                "after a closure failed between its two writes a later closure observed the torn state a={a} b={b} (a+b must be {total})"
            );
        }
    }
    obs.nontrivial();
    Ok(())
}

/// Many short closures from a few threads (tens of thousands of hand-offs per workload, sometimes more than 2^16 on
/// one lock).
fn heavy_workload() -> impl Strategy<Value = Workload> {
    (3usize..9, prop_oneof![4 => 1500usize..5000, 1 => 9_000usize..12_000], 1u8..3).prop_map(|(nthreads, ops, locks)| Workload {
        locks,
        threads: (0..nthreads)
            .map(|t| {
                (0..ops)
                    .map(|i| Op {
                        lock: ((t + i) % locks as usize) as u8,
                        delay: if i % 997 == 0 { Delay::Yield } else { Delay::None },
                        nested: false,
                    })
                    .collect()
            })
            .collect(),
    })
}

pub fn property() -> Property {
    Property {
        id: "C20",
        rule: "generated workloads on real threads: 2..16 threads, 1..3 locks, 1..119 read-modify-write closures per thread, each non-atomic (read, in-closure delay none / yield / spin up to 40k iterations / one multi-millisecond sleep, write back), optional non-reentrant nested use of the next lock in a fixed global order; the guarded value is {counter, last_writer, log}. History invariant: final counter == number of closures; the log's observed counters are exactly 0..N-1 in order (each closure saw all completed ones: no lost or torn update); per-thread program order; every apply returned its own closure's value; all threads join. Fault sub-check: a closure fails between two writes; later closures on any thread are refused or see a consistent state. Non-trivial = >= 2 threads, >= 50 closures in total and at least one in-closure delay.",
        assumptions: vec![
            "schedules are sampled on real threads with the race window widened from inside the closure; the harness does not own the scheduler",
            "deadlock freedom is observed as 'all threads joined'; a hang trips the watchdog and is reported as inconclusive",
        ],
        health: vec![("lock.rmw_history", "long-critical-section", 100)],
        subs: vec![
            prop_sub("lock.rmw_history", 1_200, 16_000, |_| workload(), oracle).shards(4),
            prop_sub("lock.many_handoffs", 60, 600, |_| heavy_workload(), oracle).shards(4),
            prop_sub(
                "lock.fault_not_torn",
                200,
                4_000,
                |_| (1u8..6, 0u8..5, 1i64..50).prop_map(|(threads, transfers_before, amount)| PoisonCase { threads, transfers_before, amount }),
                oracle_poison,
            )
            .shards(2),
        ],
    }
}
