//! C03 — Post-state reads see pre-state overlaid with all of the set's mutations.

use crate::engine::{prop_sub, Obs, Property, Violation};
use crate::gen::graphs::{graph_case, GraphCfg};
use crate::model::graph::{GraphCase, RefVerdict};
use crate::props::c01::run_case;

fn oracle(case: &GraphCase, obs: &mut Obs) -> Result<(), Violation> {
    let ev = run_case(case, obs)?;
    let t = &ev.trace;
    if t.post_reads > 0 {
        obs.label("post-read-executed");
    }
    if t.post_read_saw_computed {
        obs.label("read-computed-mutation");
    }
    if t.post_read_saw_declared {
        obs.label("read-declared-mutation");
    }
    if t.post_read_saw_deletion {
        obs.label("read-deletion");
    }
    if t.post_read_carry {
        obs.label("range-with-carry");
    }
    if t.post_read_straddles {
        obs.label("range-straddles-mutated-and-unmutated");
    }
    if t.deferred_with_lower_numbered_descendant {
        obs.label("deferred-with-lower-numbered-descendant");
    }
    let reached_pass2 = matches!(ev.verdict, RefVerdict::Ok { .. } | RefVerdict::Failed { pass: 2, .. } | RefVerdict::Mutations { pass: 2, .. });
    obs.nontrivial_if(
        reached_pass2 && t.post_reads_saw_overlay && (t.post_read_straddles || t.post_read_saw_computed || t.post_read_saw_deletion || t.post_read_carry),
    );
    Ok(())
}

pub fn property() -> Property {
    Property {
        id: "C03",
        rule: "generated two-pass cases (all three entry modes) biased to post-state reads: PostKeyRange / PostKeyRangeExtern (and pre-state readers of the same keys) of 0..4 keys starting at or just before keys from a small universe ([a,b] with b around the solution tags, at i64::MAX / i64::MIN for word carry, single-word keys), over own and external contracts; declared mutations (incl. empty = deletion), mutations computed by emit leaves in the first pass (same or other solution of the same contract), untouched keys; readers placed as roots, inner nodes and leaves with descendants numbered above and below them. What each read returned is folded into emitted mutations / parity leaves, so it is visible in the verdict, gas and returned set, which are compared with RefGraph's own overlay map; the trace log gives the pass order. Non-trivial = the check reaches the second pass and a post read sees a value different from the pre-state and its range (straddles mutated and unmutated keys, or hits a computed mutation, a deletion or a carry).",
        assumptions: vec!["see C01; mutations computed by deferred (second-pass) data outputs are not part of the post-state (the statement speaks of first-pass mutations)"],
        health: vec![
            ("post.overlay", "post-read-executed", 300),
            ("post.overlay", "read-computed-mutation", 50),
            ("post.overlay", "read-declared-mutation", 100),
            ("post.overlay", "range-with-carry", 30),
        ],
        subs: vec![prop_sub(
            "post.overlay",
            150_000,
            1_200_000,
            |t| {
                graph_case(GraphCfg {
                    max_nodes: t.pick(8, 16),
                    post_weight: 8,
                    failing: false,
                    corrupt_pct: 1,
                    dangling_pct: 0,
                    ..Default::default()
                })
            },
            oracle,
        )],
    }
}
