//! C08 — Stack, predicate, ALU and memory operations compute their documented results.

use crate::doubles::{CostTable, MapSpec, StateSpec, ViewSpec};
use crate::engine::{enum_sub, prop_sub, Obs, Property, Tier, Violation};
use crate::gen::{self, programs, BOUNDARY};
use crate::model::ops::MOp::{self, *};
use crate::model::vm::{MSolution, MState};
use crate::real::{exec_agrees_with_lockstep, lockstep, ExecCase, LockCfg};
use proptest::prelude::*;

/// Contract address whose 4 words are all 1 (what the state-read snippets push for external reads).
pub fn ext_contract() -> [u8; 32] {
    let mut a = [0u8; 32];
    for i in 0..4 {
        a[i * 8 + 7] = 1;
    }
    a
}

/// Solutions / state used by the snippet programs.
pub fn snippet_world() -> (Vec<MSolution>, StateSpec) {
    let sols = vec![
        MSolution {
            contract: [7; 32],
            predicate: [9; 32],
            data: vec![vec![1, 2, 3], vec![4, 5], vec![6]],
            mutations: vec![],
        },
        MSolution {
            contract: [8; 32],
            predicate: [3; 32],
            data: vec![vec![], vec![-1]],
            mutations: vec![],
        },
    ];
    let kv = |seed: i64| -> Vec<(Vec<i64>, Vec<i64>)> {
        vec![
            (vec![], vec![seed]),
            (vec![0], vec![seed + 1, 2]),
            (vec![1], vec![seed + 2]),
            (vec![-1, 2], vec![seed + 3, 3, 3]),
            (vec![0, 0], vec![seed + 4]),
            (vec![2], vec![seed + 5, 5]),
        ]
    };
    let state = StateSpec {
        pre: ViewSpec::Map(MapSpec {
            contracts: vec![([7; 32], kv(10)), (ext_contract(), kv(20))],
            fail_contracts: vec![],
        }),
        post: ViewSpec::Map(MapSpec {
            contracts: vec![([7; 32], kv(30)), (ext_contract(), kv(40))],
            fail_contracts: vec![],
        }),
    };
    (sols, state)
}

pub fn program_case(prog: Vec<MOp>) -> ExecCase {
    let (solutions, state) = snippet_world();
    ExecCase {
        parent: None,
        halt: false,
        prog,
        init: MState::default(),
        solutions,
        index: 0,
        state,
        costs: CostTable::uniform(1),
        limit: u64::MAX,
    }
}

const BIN_OPS: &[MOp] = &[ADD, SUB, MUL, DIV, MOD, SHL, SHR, SHRI, EQ, GT, LT, GTE, LTE, AND, OR, BAND, BOR];
const SHIFT_AMOUNTS: &[i64] = &[-1, 0, 1, 7, 31, 32, 62, 63, 64, 65, i64::MIN, i64::MAX];

fn exhaustive_items(_t: Tier) -> Box<dyn Iterator<Item = ExecCase>> {
    let mut v = Vec::new();
    for op in BIN_OPS {
        for a in BOUNDARY {
            let bs: &[i64] = if matches!(op, SHL | SHR | SHRI) { SHIFT_AMOUNTS } else { BOUNDARY };
            for b in bs {
                let mut c = ExecCase::simple(vec![*op]);
                c.init.stack = vec![*a, *b];
                v.push(c);
            }
        }
    }
    for a in BOUNDARY {
        let mut c = ExecCase::simple(vec![NOT]);
        c.init.stack = vec![*a];
        v.push(c);
    }
    // too few operands
    for op in BIN_OPS {
        for st in [vec![], vec![1i64]] {
            let mut c = ExecCase::simple(vec![*op]);
            c.init.stack = st;
            v.push(c);
        }
    }
    Box::new(v.into_iter())
}

fn is_data_op(op: &MOp) -> bool {
    matches!(op.group(), "Stack" | "Pred" | "Alu" | "Memory" | "ParentMemory") && !matches!(op, REP | REPE)
}

/// The oracle shared by all C08 sub-checks: lock-step agreement + whole-run agreement.
pub fn oracle(case: &ExecCase, obs: &mut Obs) -> Result<(), Violation> {
    let cfg = LockCfg {
        budget: 20_000,
        breadth_cap: 64,
        record_ops: true,
    };
    let sum = lockstep(case, &cfg, obs)?;
    exec_agrees_with_lockstep(case, &sum)?;
    let mut interesting = false;
    for op in &sum.ops_seen {
        if is_data_op(op) && !matches!(op, PUSH(_) | POP) {
            interesting = true;
        }
    }
    if let Some(at) = sum.failed_at {
        if let Some(op) = case.prog.get(at) {
            obs.label(err_label(op));
        }
    } else if case.prog.len() == 1 {
        obs.label(ok_label(&case.prog[0]));
    }
    let boundary_operand = case.init.stack.iter().rev().take(3).any(|w| BOUNDARY.contains(w))
        || case.prog.iter().any(|o| matches!(o, PUSH(w) if BOUNDARY.contains(w)));
    let edge_shape = matches!(case.init.stack.len(), 0 | 1 | 4095 | 4096) || matches!(case.init.memory.len(), 0 | 1 | 10239 | 10240);
    obs.nontrivial_if(interesting && (boundary_operand || edge_shape || sum.failed_at.is_some()));
    if sum.steps >= 20 {
        obs.label("ran>=20ops");
    }
    Ok(())
}

fn ok_label(op: &MOp) -> &'static str {
    // static strings per op for the histogram
    macro_rules! t { ($($v:ident),*) => { match op { $( MOp::$v => concat!("ok:", stringify!($v)), )* MOp::PUSH(_) => "ok:PUSH", _ => "ok:other" } } }
    t!(POP, DUP, DUPF, SWAP, SWAPI, SEL, SLTR, RES, LODS, STOS, DROP, EQ, EQRA, GT, LT, GTE, LTE, AND, OR, NOT, EQST, BAND, BOR, ADD, SUB, MUL, DIV, MOD, SHL, SHR, SHRI, ALOC, FREE, LOD, STO, LODR, STOR, LODP, LODPR, COM)
}

fn err_label(op: &MOp) -> &'static str {
    macro_rules! t { ($($v:ident),*) => { match op { $( MOp::$v => concat!("err:", stringify!($v)), )* MOp::PUSH(_) => "err:PUSH", _ => "err:other" } } }
    t!(POP, DUP, DUPF, SWAP, SWAPI, SEL, SLTR, RES, LODS, STOS, DROP, EQ, EQRA, GT, LT, GTE, LTE, AND, OR, NOT, EQST, BAND, BOR, ADD, SUB, MUL, DIV, MOD, SHL, SHR, SHRI, ALOC, FREE, LOD, STO, LODR, STOR, LODP, LODPR, COM)
}

fn base_len(limit: usize) -> BoxedStrategy<usize> {
    prop_oneof![
        2 => Just(0usize),
        2 => Just(1usize),
        2 => Just(2usize),
        6 => 3usize..24,
        1 => 24usize..200,
        1 => Just(limit - 3),
        2 => Just(limit - 2),
        2 => Just(limit - 1),
        2 => Just(limit),
    ]
    .boxed()
}

fn fill(len: usize) -> BoxedStrategy<Vec<i64>> {
    if len <= 24 {
        proptest::collection::vec(gen::word(), len).boxed()
    } else {
        // long shapes: a repeating pattern with a generated seed (cheap to generate and shrink)
        (any::<i64>(), 1i64..7).prop_map(move |(seed, step)| (0..len as i64).map(|i| seed.wrapping_add(i.wrapping_mul(step))).collect()).boxed()
    }
}

fn operand(l: usize, ml: usize) -> BoxedStrategy<i64> {
    prop_oneof![
        3 => gen::index_like(l),
        3 => gen::index_like(ml),
        2 => gen::index_like(l / 2),
        2 => 0i64..4,
        1 => gen::word(),
    ]
    .boxed()
}

const STACK_OPS: &[(MOp, usize)] = &[
    (PUSH(0), 0), (POP, 0), (DUP, 0), (DUPF, 1), (SWAP, 0), (SWAPI, 1), (SEL, 3), (SLTR, 2), (RES, 1), (LODS, 1), (STOS, 2), (DROP, 1),
    (EQRA, 1), (NOT, 0), (EQ, 0), (ADD, 0),
];
const MEM_OPS: &[(MOp, usize)] = &[(ALOC, 1), (FREE, 1), (LOD, 1), (STO, 2), (LODR, 2), (STOR, 2)];
/// Executed as a compute child: the generated memory is the (read-only) parent memory.
const PMEM_OPS: &[(MOp, usize)] = &[(LODP, 1), (LODPR, 2), (LODP, 1), (LODPR, 2), (COME, 0), (COM, 1), (LOD, 1)];

fn shaped_case(ops: &'static [(MOp, usize)], mem_focus: bool) -> impl Strategy<Value = ExecCase> {
    (0..ops.len(), base_len(4096), if mem_focus { base_len(10240) } else { prop_oneof![Just(0usize), Just(3usize), 0usize..40].boxed() })
        .prop_flat_map(move |(k, l, ml)| {
            let (op, arity) = ops[k];
            let l = l.min(4096 - arity);
            (
                Just(op),
                fill(l),
                fill(ml),
                proptest::collection::vec(operand(l, ml), arity),
                gen::word(),
                prop_oneof![3 => Just(None), 1 => (0i64..2).prop_map(Some), 1 => Just(Some(2)), 1 => Just(Some(-1))],
            )
        })
        .prop_map(|(op, mut stack, memory, mut operands, imm, cond)| {
            // condition-like last operand for SEL / SLTR
            if matches!(op, SEL | SLTR) {
                if let (Some(c), Some(last)) = (cond, operands.last_mut()) {
                    *last = c;
                } else if let Some(last) = operands.last_mut() {
                    *last = (*last).rem_euclid(2);
                }
            }
            stack.extend(operands);
            let op = if let PUSH(_) = op { PUSH(imm) } else { op };
            let mut c = ExecCase::simple(vec![op]);
            c.init.stack = stack;
            if std::ptr::eq(ops, PMEM_OPS) {
                c.parent = Some(memory);
            } else {
                c.init.memory = memory;
            }
            c
        })
}

/// EqRange / EqSet / SelectRange with deliberately related ranges.
fn range_case() -> impl Strategy<Value = ExecCase> {
    let eqra = (fill_small(), proptest::collection::vec(gen::word(), 0..6), proptest::option::of(any::<u32>()), -1i64..2)
        .prop_map(|(base, a, differ, dn)| {
            let mut b = a.clone();
            if let (Some(pos), false) = (differ, b.is_empty()) {
                let i = gen::pick_ix(pos, b.len());
                b[i] = b[i].wrapping_add(1);
            }
            let n = a.len() as i64 + dn; // sometimes one too long / too short
            let mut st = base;
            st.extend(a);
            st.extend(b);
            st.push(n);
            let mut c = ExecCase::simple(vec![EQRA]);
            c.init.stack = st;
            c
        });
    let sltr = (fill_small(), proptest::collection::vec(gen::word(), 0..6), proptest::collection::vec(gen::word(), 0..6), -1i64..2, prop_oneof![4 => 0i64..2, 1 => Just(2i64), 1 => Just(-1i64)])
        .prop_map(|(base, a, mut b, dn, cond)| {
            b.resize(a.len(), 5);
            let n = a.len() as i64 + dn;
            let mut st = base;
            st.extend(a);
            st.extend(b);
            st.push(n);
            st.push(cond);
            let mut c = ExecCase::simple(vec![SLTR]);
            c.init.stack = st;
            c
        });
    let set = || proptest::collection::vec(proptest::collection::vec(-1i64..3, 0..3), 0..4);
    let eqst = (fill_small(), set(), set(), 0u8..6, -1i64..2).prop_map(|(base, l, r0, mode, dlen)| {
        // rhs: same as lhs, permuted, with a duplicate, re-chunked, or independent
        let mut r = match mode {
            0 => l.clone(),
            1 => {
                let mut x = l.clone();
                x.reverse();
                x
            }
            2 => {
                let mut x = l.clone();
                if let Some(f) = l.first() {
                    x.push(f.clone());
                }
                x
            }
            3 => {
                // differently chunked: concatenate the first two elements
                let mut x = l.clone();
                if x.len() >= 2 {
                    let b = x.remove(1);
                    x[0].extend(b);
                }
                x
            }
            _ => r0,
        };
        if mode == 5 {
            r.truncate(1);
        }
        let enc = |es: &Vec<Vec<i64>>, st: &mut Vec<i64>, dlen: i64| {
            let mut total = 0i64;
            for e in es {
                st.extend(e);
                st.push(e.len() as i64);
                total += e.len() as i64 + 1;
            }
            st.push(total + dlen);
        };
        let mut st = base;
        enc(&l, &mut st, 0);
        enc(&r, &mut st, if mode == 4 { dlen } else { 0 });
        let mut c = ExecCase::simple(vec![EQST]);
        c.init.stack = st;
        c
    });
    prop_oneof![eqra, sltr, eqst]
}

fn fill_small() -> impl Strategy<Value = Vec<i64>> {
    proptest::collection::vec(gen::word(), 0..5)
}

/// Parent-memory loads observed through a compute child that copies what it read into its own memory.
fn parent_memory_case() -> impl Strategy<Value = ExecCase> {
    (base_len(10240).prop_flat_map(|ml| (fill(ml), gen::index_like(ml), gen::index_like(ml.min(40)), any::<bool>(), 1i64..4)))
        .prop_map(|(memory, addr, n, range, breadth)| {
            let mut prog = vec![PUSH(breadth), COM, POP];
            if range {
                // [..] -> LODPR -> [w*n] ; ALOC n -> [w*n, a] ; PUSH n SWAP -> [w*n, n, a] ; STOR
                prog.extend([PUSH(addr), PUSH(n), LODPR, PUSH(n), ALOC, PUSH(n), SWAP, STOR]);
            } else {
                prog.extend([PUSH(addr), LODP, PUSH(1), ALOC, STO]);
            }
            prog.push(COME);
            let mut c = ExecCase::simple(prog);
            c.init.memory = memory;
            c
        })
}

pub fn property() -> Property {
    Property {
        id: "C08",
        rule: "bounded-exhaustive: every binary ALU/Pred op x BxB (42 boundary words), shifts x B x 12 shift amounts, Not x B, missing operands; generated: every Stack/Memory op on stack/memory shapes {0,1,2,small,limit-3..limit} with index-like operands relative to the lengths, related ranges for EqRange/EqSet/SelectRange, parent-memory loads inside compute children, and structured snippet programs. Compared with RefVm after every op (exact stack, memory, pc, repeat) and against exec_ops at the end. Non-trivial = executes a data op other than Push/Pop and (an operand is a boundary word, or the stack/memory shape is at 0/1/limit-1/limit, or the op fails).",
        assumptions: vec![
            "RefVm (harness/src/model/vm.rs) is the reference semantics, written from asm.yml and the property statements",
            "Mod(i64::MIN,-1): 0 and an error are both accepted",
        ],
        health: vec![("ops.programs", "ran>=20ops", 300)],
        subs: vec![
            enum_sub("ops.alu_pred_exhaustive", exhaustive_items, oracle),
            prop_sub("ops.stack_shapes", 200_000, 2_000_000, |_| prop_oneof![3 => shaped_case(STACK_OPS, false).boxed(), 2 => range_case().boxed()], oracle),
            prop_sub("ops.memory_shapes", 125_000, 1_200_000, |_| prop_oneof![3 => shaped_case(MEM_OPS, true).boxed(), 1 => parent_memory_case().boxed(), 1 => shaped_case(PMEM_OPS, true).boxed()], oracle),
            prop_sub(
                "ops.programs",
                30_000,
                300_000,
                |_| programs::structured(programs::StructCfg::default()).prop_map(program_case),
                oracle,
            ),
        ],
    }
}
