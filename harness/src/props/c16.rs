//! C16 — Validators accept exactly the documented limits; computed sets stay valid.

use crate::chk::{build_world, run_real, RunEnv};
use crate::engine::{enum_sub, no_panic, prop_sub, Obs, Property, Tier, Violation};
use crate::gen::graphs::{graph_case, GraphCfg};
use crate::model::graph::GraphCase;
use crate::ensure;
use essential_check::predicate::{check as check_predicate, check_contract, check_signed_contract};
use essential_check::solution::check_set;
use essential_types::contract::{Contract, SignedContract};
use essential_types::predicate::{Node, Predicate};
use essential_types::solution::{Mutation, Solution, SolutionSet};
use essential_types::{ContentAddress, PredicateAddress};
use proptest::prelude::*;
use serde::{Deserialize, Serialize};
use std::collections::BTreeSet;

/// Shape of a solution set given by counts only (large vectors are built by repetition).
#[derive(Clone, Debug, Hash, PartialEq, Eq, Serialize, Deserialize)]
pub struct SetShape {
    pub solutions: usize,
    /// slots in solution 0 (others get 1)
    pub slots: usize,
    /// words in slot 0 of solution 0
    pub slot_words: usize,
    /// total number of mutations, distributed round-robin over the solutions
    pub mutations: usize,
    pub key_words: usize,
    pub value_words: usize,
    /// 0 = all keys distinct; 1 = one key twice inside one solution; 2 = same key in two solutions of the same contract;
    /// 3 = same key in two solutions of different contracts
    pub dup: u8,
    /// true: only mutation 0 carries `key_words` (the others have one-word keys), so that an over-long key can meet
    /// an empty or over-long value in the same mutation while every other mutation stays valid
    #[serde(default)]
    pub focus: bool,
    /// 0 = the sized slot is filled with 7s and comes first (the other slots are `[1]`); 1 = filled with 0s (it compares
    /// *less* than its neighbours although it is longer); 2 = filled with 0s and placed last
    #[serde(default)]
    pub slot_shape: u8,
    /// the second mutation of a duplicated key carries another value (a write after a write, or a delete after a write)
    #[serde(default)]
    pub dup_other_value: u8,
}

fn build_set(s: &SetShape) -> SolutionSet {
    let mut sols = Vec::new();
    for i in 0..s.solutions {
        let mut c = [0u8; 32];
        c[0] = if s.dup == 3 { i as u8 } else { 1 };
        sols.push(Solution {
            predicate_to_solve: PredicateAddress {
                contract: ContentAddress(c),
                predicate: ContentAddress([i as u8; 32]),
            },
            predicate_data: if i == 0 {
                let mut d = vec![vec![if s.slot_shape == 0 { 7 } else { 0 }; s.slot_words]];
                d.resize(s.slots.max(if s.slots == 0 { 0 } else { 1 }), vec![1]);
                if s.slots == 0 {
                    d.clear();
                }
                if s.slot_shape == 2 {
                    d.reverse();
                }
                d
            } else {
                vec![vec![1]]
            },
            state_mutations: vec![],
        });
    }
    if s.solutions > 0 {
        for m in 0..s.mutations {
            let si = m % s.solutions;
            // distinct keys: first word = m; long keys padded
            let mut key = vec![m as i64];
            let kw = if s.focus && m != 0 { 1 } else { s.key_words };
            key.resize(kw.max(1), 0);
            if kw == 0 {
                key.clear();
            }
            let value = if m == 0 { vec![if s.slot_shape == 0 { 3 } else { 0 }; s.value_words] } else { vec![1] };
            sols[si].state_mutations.push(Mutation { key, value });
        }
        match s.dup {
            1 if !sols[0].state_mutations.is_empty() => {
                let mut m = sols[0].state_mutations[0].clone();
                match s.dup_other_value {
                    1 => m.value = vec![77],
                    2 => m.value = vec![],
                    _ => {}
                }
                sols[0].state_mutations.push(m);
            }
            2 | 3 if s.solutions >= 2 && !sols[0].state_mutations.is_empty() => {
                let mut m = sols[0].state_mutations[0].clone();
                match s.dup_other_value {
                    1 => m.value = vec![77],
                    2 => m.value = vec![],
                    _ => {}
                }
                sols[1].state_mutations.push(m);
            }
            _ => {}
        }
    }
    SolutionSet { solutions: sols }
}

/// The statement's conjunction, restated. Returns None where C16 and C04 word the rule differently
/// (same contract+key in two different solutions): either verdict is accepted here, C04 decides.
fn set_valid(s: &SetShape, set: &SolutionSet) -> Option<bool> {
    let total: usize = set.solutions.iter().map(|x| x.state_mutations.len()).sum();
    let mut ok = (1..=100).contains(&set.solutions.len());
    for sol in &set.solutions {
        ok &= sol.predicate_data.len() <= 100;
        ok &= sol.predicate_data.iter().all(|d| d.len() <= 10_000);
        ok &= sol.state_mutations.iter().all(|m| m.key.len() <= 1000 && m.value.len() <= 10_000);
        let keys: BTreeSet<_> = sol.state_mutations.iter().map(|m| &m.key).collect();
        ok &= keys.len() == sol.state_mutations.len();
    }
    ok &= total <= 1000;
    let _ = s;
    if ok {
        // same contract and key in two different solutions: C04's wording rejects, C16's accepts
        let mut seen = BTreeSet::new();
        for sol in &set.solutions {
            for m in &sol.state_mutations {
                if !seen.insert((&sol.predicate_to_solve.contract, &m.key)) {
                    return None;
                }
            }
        }
    }
    Some(ok)
}

fn oracle_set(s: &SetShape, obs: &mut Obs) -> Result<(), Violation> {
    let set = build_set(s);
    let got = no_panic("check_set", || check_set(&set).is_ok())?;
    match set_valid(s, &set) {
        Some(want) => ensure!(
            got == want,
            "lim:set",
            "check_set {} a set that is {} by the documented limits: {s:?}",
            if got { "accepts" } else { "rejects" },
            if want { "valid" } else { "invalid" }
        ),
        None => obs.label("c04-overlap-region"),
    }
    obs.label(if got { "accepted" } else { "rejected" });
    obs.nontrivial();
    Ok(())
}

const AROUND: fn(usize) -> [usize; 5] = |l| [0, 1, l - 1, l, l + 1];

fn set_items(_t: Tier) -> Box<dyn Iterator<Item = SetShape>> {
    let base = SetShape {
        solutions: 2,
        slots: 1,
        slot_words: 1,
        mutations: 2,
        key_words: 1,
        value_words: 1,
        dup: 0,
        focus: false,
        slot_shape: 0,
        dup_other_value: 0,
    };
    let mut v = Vec::new();
    // every limit alone and all pairwise combinations of two limits at {0,1,L-1,L,L+1}
    type Setter = fn(&mut SetShape, usize);
    let dims: Vec<(usize, Setter)> = vec![
        (100, |s, x| s.solutions = x),
        (100, |s, x| s.slots = x),
        (10_000, |s, x| s.slot_words = x),
        (1000, |s, x| s.mutations = x),
        (1000, |s, x| s.key_words = x),
        (10_000, |s, x| s.value_words = x),
    ];
    for (i, (li, fi)) in dims.iter().enumerate() {
        for a in AROUND(*li) {
            let mut s = base.clone();
            fi(&mut s, a);
            v.push(s.clone());
            for (lj, fj) in dims.iter().skip(i + 1) {
                for b in AROUND(*lj) {
                    let mut s2 = s.clone();
                    fj(&mut s2, b);
                    v.push(s2.clone());
                    if s2.mutations >= 2 && (s2.key_words != 1 || s2.value_words != 1) {
                        let mut s3 = s2.clone();
                        s3.focus = true;
                        v.push(s3);
                    }
                    if s2.slots >= 2 && s2.slot_words != 1 || s2.mutations >= 2 && s2.value_words > 1 {
                        for shape in 1..3 {
                            let mut s3 = s2.clone();
                            s3.slot_shape = shape;
                            v.push(s3);
                        }
                    }
                }
            }
        }
    }
    // duplicates
    for dup in 0..4u8 {
        for sols in [1usize, 2, 3, 100] {
            for muts in [0usize, 1, 2, 999, 1000] {
                for other in 0..3u8 {
                    let mut s = base.clone();
                    s.dup = dup;
                    s.solutions = sols;
                    s.mutations = muts;
                    s.dup_other_value = other;
                    v.push(s);
                }
            }
        }
    }
    // total mutations spread over many solutions (limit is per set, not per solution)
    for sols in [2usize, 3, 50, 100] {
        for muts in [999usize, 1000, 1001, 1500] {
            let mut s = base.clone();
            s.solutions = sols;
            s.mutations = muts;
            v.push(s);
        }
    }
    Box::new(v.into_iter())
}

fn set_random() -> impl Strategy<Value = SetShape> {
    let around = |l: usize| prop_oneof![2 => 0usize..4, 1 => Just(l - 1), 2 => Just(l), 1 => Just(l + 1), 1 => 0usize..=l + 2];
    (around(100), around(100), around(10_000), around(1000), around(1000), around(10_000), 0u8..4, any::<bool>(), 0u8..3, 0u8..3).prop_map(|(solutions, slots, slot_words, mutations, key_words, value_words, dup, focus, slot_shape, dup_other_value)| SetShape {
        solutions,
        slots,
        slot_words,
        mutations,
        key_words,
        value_words,
        dup,
        focus,
        slot_shape,
        dup_other_value,
    })
}

#[derive(Clone, Debug, Hash, Serialize, Deserialize)]
pub struct PredShape {
    pub nodes: usize,
    pub edges: usize,
    pub predicates: usize,
    /// 0 valid signature, 1 one bit of the signature flipped, 2 recovery id out of range, 3 signature for another contract, 4 high-S form
    pub sig: u8,
    pub bit: u16,
}

fn mk_pred(nodes: usize, edges: usize, salt: u8) -> Predicate {
    Predicate {
        nodes: (0..nodes)
            .map(|i| Node {
                edge_start: if i == 0 { 0 } else { u16::MAX },
                program_address: ContentAddress([salt; 32]),
            })
            .collect(),
        edges: vec![0; edges],
    }
}

fn oracle_pred(s: &PredShape, obs: &mut Obs) -> Result<(), Violation> {
    let p = mk_pred(s.nodes, s.edges, 1);
    let want_p = s.nodes <= 1000 && s.edges <= 1000;
    let got_p = no_panic("predicate::check", || check_predicate(&p).is_ok())?;
    ensure!(got_p == want_p, "lim:predicate", "predicate::check gives {got_p} for {} nodes / {} edges", s.nodes, s.edges);
    // contract: `predicates` copies, the first one has the given shape, the rest are small
    let mut preds = vec![p];
    for i in 1..s.predicates {
        preds.push(mk_pred(1, 0, (i % 250) as u8 + 2));
    }
    if s.predicates == 0 {
        preds.clear();
    }
    let want_c = s.predicates <= 100 && (s.predicates == 0 || want_p);
    let got_c = no_panic("check_contract", || check_contract(&preds).is_ok())?;
    ensure!(got_c == want_c, "lim:contract", "check_contract gives {got_c} for {} predicates (first: {} nodes / {} edges)", s.predicates, s.nodes, s.edges);
    // signed contract
    let contract = Contract {
        predicates: preds,
        salt: [9; 32],
    };
    let sk = essential_sign::secp256k1::SecretKey::from_slice(&[0x42; 32]).unwrap();
    let mut signed: SignedContract = essential_sign::contract::sign(contract.clone(), &sk);
    let mut sig_ok = true;
    match s.sig {
        1 => {
            // a flipped bit usually still recovers *some* key: validity then only depends on the encoding
            let i = (s.bit % 512) as usize;
            signed.signature.0[i / 8] ^= 1 << (i % 8);
            sig_ok = essential_sign::contract::recover(&signed).is_ok();
        }
        2 => {
            signed.signature.1 = 4 + (s.bit % 250) as u8;
            sig_ok = false;
        }
        4 => {
            // the high-S form of the valid signature: recoverable, must be accepted
            signed.signature = crate::props::c19::high_s_twin(&signed.signature);
            sig_ok = essential_sign::contract::recover(&signed).is_ok();
        }
        3 => {
            let other = Contract {
                predicates: contract.predicates.clone(),
                salt: [8; 32],
            };
            signed.signature = essential_sign::contract::sign(other, &sk).signature;
            // still a recoverable signature (of some other key): the statement only asks for recoverability
            sig_ok = essential_sign::contract::recover(&signed).is_ok();
        }
        _ => {}
    }
    let got_s = no_panic("check_signed_contract", || check_signed_contract(&signed).is_ok())?;
    ensure!(
        got_s == (want_c && sig_ok),
        "lim:signed-contract",
        "check_signed_contract gives {got_s}; contract valid: {want_c}, signature recoverable: {sig_ok} ({s:?})"
    );
    obs.nontrivial();
    Ok(())
}

fn pred_items(_t: Tier) -> Box<dyn Iterator<Item = PredShape>> {
    let mut v = Vec::new();
    for n in AROUND(1000) {
        for e in AROUND(1000) {
            for p in AROUND(100) {
                for sig in 0..5u8 {
                    if sig != 0 && !(n == 1000 && e == 1000 || n == 1 && e == 1) {
                        continue;
                    }
                    v.push(PredShape {
                        nodes: n,
                        edges: e,
                        predicates: p,
                        sig,
                        bit: (n + e + p) as u16,
                    });
                }
            }
        }
    }
    // every out-of-range recovery id (4..=253) on an otherwise valid signed contract
    for bit in 0..250u16 {
        v.push(PredShape { nodes: 1, edges: 1, predicates: 1, sig: 2, bit });
    }
    // far beyond the limits (counts that wrap narrow integer types)
    for big in [65_535usize, 65_536, 65_537, 66_536, 131_072] {
        v.push(PredShape { nodes: big, edges: 1, predicates: 1, sig: 0, bit: 0 });
        v.push(PredShape { nodes: 1, edges: big, predicates: 2, sig: 0, bit: 0 });
    }
    for p in [255usize, 256, 257, 65_536 + 3] {
        v.push(PredShape { nodes: 1, edges: 1, predicates: p, sig: 0, bit: 0 });
    }
    Box::new(v.into_iter())
}

/// A set returned by the mutation-computing check still satisfies the one-mutation-per-slot rule.
fn oracle_computed(case: &GraphCase, obs: &mut Obs) -> Result<(), Violation> {
    let world = build_world(case);
    if no_panic("check_set", || check_set(&world.set).is_ok())? {
        obs.label("input-valid");
    } else {
        obs.skip("input set not valid");
        return Ok(());
    }
    let run = run_real(case, &world, &RunEnv { log: None, delay: None })?;
    let Some(fm) = &run.final_mutations else {
        obs.label("check-failed");
        return Ok(());
    };
    obs.label("check-ok");
    let mut returned = world.set.clone();
    let mut any_computed = false;
    for (si, ms) in fm.iter().enumerate() {
        returned.solutions[si].state_mutations = ms.iter().map(|(k, v)| Mutation { key: k.clone(), value: v.clone() }).collect();
        let keys: BTreeSet<_> = ms.iter().map(|(k, _)| k).collect();
        ensure!(
            keys.len() == ms.len(),
            "lim:computed-duplicate-key",
            "solution {si} of the returned set mutates a key twice: {ms:?}"
        );
        if ms.len() > case.solutions[si].mutations.len() {
            any_computed = true;
        }
    }
    // and the validator agrees (as long as the total stays within the limit)
    let total: usize = fm.iter().map(|m| m.len()).sum();
    if total <= 1000 {
        let ok = no_panic("check_set", || check_set(&returned).map_err(|e| format!("{e}")))?;
        ensure!(ok.is_ok(), "lim:computed-set-invalid", "the set returned by the two-pass check is rejected by check_set: {:?}", ok.err());
    }
    if any_computed {
        obs.label("has-computed-mutations");
    }
    obs.nontrivial_if(any_computed);
    Ok(())
}

pub fn property() -> Property {
    Property {
        id: "C16",
        rule: "bounded-exhaustive: every limit (solutions 100, slots 100, slot words 10000, total mutations 1000, key words 1000, value words 10000) at {0,1,L-1,L,L+1} alone and in all pairwise combinations, duplicate-key placements (inside one solution / across two solutions of the same or different contracts), the mutation total spread over 2..100 solutions; predicates x contracts at {0,1,L-1,L,L+1} nodes/edges/predicates with valid, bit-flipped, out-of-range-id and foreign signatures; random combinations; plus generated two-pass cases whose emit leaves compute mutations that may collide with declared keys. Oracle: the statement's conjunction over the counts (the region where C16 and C04 word the duplicate rule differently is accepted either way here); Ok(set) from the mutation-computing check => no key twice in a solution and check_set accepts the returned set. Non-trivial: every limit case is at or next to a limit by construction; computed-set cases count when a mutation was computed.",
        assumptions: vec!["which of several violated limits is reported is not compared", "a bit-flipped signature is 'recoverable' iff the sign crate recovers some key from it"],
        health: vec![("lim.computed_set_valid", "has-computed-mutations", 100)],
        subs: vec![
            enum_sub("lim.set_limits", set_items, oracle_set).shards(16),
            prop_sub("lim.set_random", 1_600, 20_000, |_| set_random(), oracle_set),
            enum_sub("lim.predicate_contract_limits", pred_items, oracle_pred),
            prop_sub(
                "lim.computed_set_valid",
                80_000,
                800_000,
                |_| {
                    graph_case(GraphCfg {
                        max_nodes: 6,
                        failing: false,
                        corrupt_pct: 0,
                        dangling_pct: 0,
                        two_pass_only: false,
                        ..Default::default()
                    })
                },
                oracle_computed,
            ),
        ],
    }
}
