//! C09 — Control flow, repeat loops and evaluation results follow the specification.

use crate::engine::{prop_sub, Obs, Property, Violation};
use crate::gen::{self, programs};
use crate::model::ops::MOp::{self, *};
use crate::model::vm::{RSlot, RunResult};
use crate::real::{exec_agrees_with_lockstep, lockstep, run_eval, run_model, ExecCase, LockCfg};
use crate::{ensure, viol};
use proptest::prelude::*;

fn oracle(case: &ExecCase, obs: &mut Obs) -> Result<(), Violation> {
    let cfg = LockCfg {
        budget: 6_000,
        breadth_cap: 32,
        record_ops: true,
    };
    let sum = lockstep(case, &cfg, obs)?;
    exec_agrees_with_lockstep(case, &sum)?;
    let control_fail = sum
        .failed_at
        .and_then(|at| case.prog.get(at))
        .map(|op| matches!(op, JMPIF | HLTIF | PNCIF | REP | REPE | REPC))
        .unwrap_or(false);
    let looped = sum.ops_seen.iter().filter(|o| matches!(o, REPE)).count() >= 2;
    if sum.backward_jumps > 0 {
        obs.label("backward-jump");
    }
    if sum.max_repeat >= 2 {
        obs.label("nested-repeat");
    }
    if sum.max_repeat >= 1 {
        obs.label("repeat");
    }
    if control_fail {
        obs.label("control-op-error");
    }
    if matches!(sum.ended, Some(crate::model::vm::Stop::Halt)) {
        obs.label("halted");
    }
    obs.nontrivial_if(sum.taken_jumps > 0 || control_fail || looped || sum.ended == Some(crate::model::vm::Stop::Halt));
    Ok(())
}

fn tags(max: usize) -> impl Strategy<Value = Vec<MOp>> {
    proptest::collection::vec((100i64..10_000).prop_map(PUSH), 0..=max)
}

pub fn jump_case() -> impl Strategy<Value = ExecCase> {
    (tags(4), tags(6), 0u8..12, prop_oneof![5 => Just(1i64), 3 => Just(0i64), 1 => Just(2i64), 1 => Just(-1i64)], any::<bool>())
        .prop_map(|(pre, post, dk, cond, halt_in_suffix)| {
            let pos = pre.len() as i64 + 2; // index of the JMPIF
            let mut post = post;
            if halt_in_suffix && !post.is_empty() {
                let i = post.len() / 2;
                post[i] = HLT;
            }
            let len = pos + 1 + post.len() as i64;
            let d = match dk {
                0 => 0,
                1 => 1,
                2 => -1,
                3 => 2,
                4 => -2,
                5 => -pos,          // to op 0
                6 => len - 1 - pos, // to the last op
                7 => len - pos,     // exactly past the end
                8 => len + 1 - pos, // beyond the end
                9 => -(pos + 1),    // before op 0
                10 => i64::MIN,
                _ => i64::MAX,
            };
            let mut prog = pre;
            prog.extend([PUSH(d), PUSH(cond), JMPIF]);
            prog.extend(post);
            ExecCase::simple(prog)
        })
}

fn repeat_case() -> impl Strategy<Value = ExecCase> {
    let count = || prop_oneof![Just(i64::MIN), Just(-1i64), Just(0i64), Just(1i64), Just(2i64), Just(3i64), Just(7i64), Just(i64::MAX)];
    let dir = || prop_oneof![4 => Just(1i64), 4 => Just(0i64), 1 => Just(2i64), 1 => Just(-1i64)];
    // nesting 1..4, each level logs its counter
    let nested = (proptest::collection::vec((count(), dir(), any::<bool>()), 1..5), tags(2), prop_oneof![3 => Just(true), 1 => Just(false)]).prop_map(|(levels, tail, body)| {
        let mut prog = Vec::new();
        for (n, d, log) in &levels {
            prog.extend([PUSH(*n), PUSH(*d), REP]);
            // `body == false`: completely empty loop bodies (RepeatEnd directly after Repeat)
            if *log && body {
                prog.push(REPC);
            }
        }
        if body {
            prog.push(PUSH(77));
        }
        for _ in &levels {
            prog.push(REPE);
        }
        prog.extend(tail);
        // i64::MAX loops never end within the budget: fine (skipped), but keep most cases finite
        ExecCase::simple(prog)
    });
    // REPE / REPC without a loop, and an extra REPE after a finished loop
    let stray = (0u8..4, count()).prop_map(|(k, n)| {
        let prog = match k {
            0 => vec![REPE],
            1 => vec![REPC],
            2 => vec![PUSH(n.clamp(-1, 3)), PUSH(1), REP, PUSH(5), REPE, REPE],
            _ => vec![PUSH(n.clamp(-1, 3)), PUSH(0), REP, REPC, REPE, REPC],
        };
        ExecCase::simple(prog)
    });
    // repeat-stack depth around the limit, entered from a pre-built repeat stack
    let deep = (4093usize..=4096, 1usize..4, any::<bool>()).prop_map(|(depth, more, up)| {
        let mut c = ExecCase::simple(Vec::new());
        c.init.repeat = (0..depth)
            .map(|i| if i % 2 == 0 { RSlot::Down { counter: 1, start: 0 } } else { RSlot::Up { counter: 0, limit: 1, start: 0 } })
            .collect();
        let mut prog = Vec::new();
        for _ in 0..more {
            prog.extend([PUSH(1), PUSH(up as i64), REP]);
        }
        prog.push(REPC);
        for _ in 0..more {
            prog.push(REPE);
        }
        prog.push(REPE);
        c.prog = prog;
        c
    });
    // loop entered with a pre-existing partially advanced counter
    let resumed = (1i64..6, 0i64..6, any::<bool>()).prop_map(|(limit, counter, up)| {
        let mut c = ExecCase::simple(vec![REPC, REPE, PUSH(9)]);
        c.init.repeat = vec![if up {
            RSlot::Up { counter: counter.min((limit - 1).max(0)), limit, start: 0 }
        } else {
            RSlot::Down { counter, start: 0 }
        }];
        c
    });
    prop_oneof![6 => nested, 1 => stray, 1 => deep, 2 => resumed]
}

fn halt_case() -> impl Strategy<Value = ExecCase> {
    (tags(6), any::<u32>(), 0u8..6).prop_map(|(mut prog, pos, k)| {
        let i = gen::pick_ix(pos, prog.len() + 1);
        let ins: Vec<MOp> = match k {
            0 => vec![HLT],
            1 => vec![PUSH(1), HLTIF],
            2 => vec![PUSH(0), HLTIF],
            3 => vec![PUSH(2), HLTIF],
            4 => vec![PUSH(0), PNCIF],
            _ => vec![PUSH(1), PNCIF],
        };
        for (j, op) in ins.into_iter().enumerate() {
            prog.insert(i + j, op);
        }
        ExecCase::simple(prog)
    })
}

fn oracle_eval(case: &ExecCase, obs: &mut Obs) -> Result<(), Violation> {
    let (r, st, _, _) = run_model(case, 6_000, 32);
    let real = run_eval(case)?;
    match r {
        RunResult::Ok { .. } => {
            let expect = match st.stack.last() {
                Some(1) => Some(true),
                Some(0) => Some(false),
                _ => None,
            };
            match (expect, &real) {
                (Some(b), Ok(rb)) => ensure!(b == *rb, "eval:value", "eval gives {rb}, final stack top is {:?}", st.stack.last()),
                (None, Err(_)) => {}
                (Some(b), Err(e)) => return Err(viol!("eval:should-succeed", "eval must yield {b} (final stack top {:?}) but failed: {e}", st.stack.last())),
                (None, Ok(rb)) => return Err(viol!("eval:should-fail", "eval must fail (final stack {:?}) but yielded {rb}", crate::real::vm_state_tail(&st.stack))),
            }
            obs.nontrivial();
            obs.label(match expect {
                Some(true) => "eval-true",
                Some(false) => "eval-false",
                None => "eval-invalid",
            });
        }
        RunResult::Err { .. } => {
            ensure!(real.is_err(), "eval:should-fail", "program fails in the specification but eval returned {real:?}");
            obs.label("eval-exec-error");
        }
        _ => obs.skip("unspecified or over budget"),
    }
    Ok(())
}

fn eval_case() -> impl Strategy<Value = ExecCase> {
    (
        prop_oneof![
            3 => tags(3),
            2 => programs::structured(programs::StructCfg { tags_only: true, compute: false, ..Default::default() }),
        ],
        prop_oneof![3 => Just(Some(1i64)), 3 => Just(Some(0i64)), 1 => Just(Some(2i64)), 1 => Just(Some(-1i64)), 1 => Just(None), 1 => gen::word().prop_map(Some)],
        any::<bool>(),
    )
        .prop_map(|(mut prog, top, drop_all)| {
            // make sure a trailing HLT (if any) stays last
            let halted = prog.last() == Some(&HLT);
            if halted {
                prog.pop();
            }
            if drop_all && top.is_none() {
                // empty the stack: RES 0 gives the depth; drop depth words
                prog.extend([PUSH(0), RES, DROP]);
            }
            if let Some(t) = top {
                prog.push(PUSH(t));
            }
            if halted {
                prog.push(HLT);
            }
            ExecCase::simple(prog)
        })
}

/// Control flow far from the start of a long program: a forward jump over `pad` Halt ops, then a loop and a backward
/// jump whose targets lie beyond op index `pad` (around 2^15, 2^16 and beyond: the program counter is a full usize).
#[derive(Clone, Debug, Hash, serde::Serialize, serde::Deserialize)]
pub struct FarLoop {
    pub pad: usize,
    pub count: i64,
    pub up: bool,
}

fn oracle_far(f: &FarLoop, obs: &mut Obs) -> Result<(), Violation> {
    let mut prog = vec![PUSH(f.pad as i64 + 1), PUSH(1), JMPIF];
    prog.extend(std::iter::repeat(HLT).take(f.pad));
    // a counted loop that logs its counter, then a two-round backward-jump loop over a memory cell
    prog.extend([PUSH(f.count), PUSH(f.up as i64), REP, REPC, REPE, PUSH(7)]);
    prog.extend([PUSH(1), ALOC, POP, PUSH(2), PUSH(0), STO]);
    let start = prog.len();
    prog.extend([PUSH(9), PUSH(0), LOD, PUSH(1), SUB, DUP, PUSH(0), STO, PUSH(0), GT]);
    let jmp_at = prog.len() + 2;
    prog.extend([PUSH(start as i64 - jmp_at as i64), SWAP, JMPIF, PUSH(8)]);
    let case = ExecCase::simple(prog);
    oracle(&case, obs)?;
    obs.label("far-loop");
    obs.nontrivial();
    Ok(())
}

fn far_loop() -> impl Strategy<Value = FarLoop> {
    (prop_oneof![2 => 65_520usize..65_560, 1 => 32_750usize..32_790, 1 => 9_990usize..10_010, 1 => 0usize..200_000], 1i64..5, any::<bool>()).prop_map(|(pad, count, up)| FarLoop { pad, count, up })
}

pub fn property() -> Property {
    Property {
        id: "C09",
        rule: "generated programs whose bodies log their own execution (distinct tags, RepeatCounter), so the final stack is the trace: JumpIf with distances {0,±1,±2,to 0,to last,to len,len+1,before 0,MIN,MAX} x conditions {0,1,2,-1}; Repeat with counts {MIN,-1,0,1,2,3,7,MAX}, both directions, invalid directions, nesting 1..4, repeat stack at 4093..4096(+3), stray RepeatEnd/RepeatCounter, pre-advanced counters; Halt/HaltIf/PanicIf at every position; structured nested programs; loops and backward jumps whose targets lie beyond op index 10000 / 2^15 / 2^16 / up to 200000; eval on final tops {0,1,2,-1,empty}. Compared with RefVm after every op and with exec_ops/eval_ops at the end. Non-trivial = a taken control transfer, a loop that iterates, a halt, or a failing control op.",
        assumptions: vec![
            "JumpIf with condition 0 never jumps and never fails, whatever the distance (the statement lists only non-0/1 conditions as errors)",
            "a ComputeEnd executed outside a compute context is unspecified (case skipped)",
        ],
        health: vec![("cf.structured", "backward-jump", 200), ("cf.repeats", "nested-repeat", 200)],
        subs: vec![
            prop_sub("cf.jumps", 36_000, 600_000, |_| jump_case(), oracle),
            prop_sub("cf.repeats", 36_000, 600_000, |_| repeat_case(), oracle),
            prop_sub("cf.halts", 18_000, 300_000, |_| halt_case(), oracle),
            prop_sub(
                "cf.structured",
                18_000,
                300_000,
                |_| {
                    programs::structured(programs::StructCfg {
                        tags_only: true,
                        compute: false,
                        depth: 4,
                        ..Default::default()
                    })
                    .prop_map(ExecCase::simple)
                },
                oracle,
            ),
            prop_sub("cf.eval", 24_000, 400_000, |_| eval_case(), oracle_eval),
            prop_sub("cf.far_loops", 240, 2_400, |_| far_loop(), oracle_far),
        ],
    }
}
