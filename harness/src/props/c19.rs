//! C19 — Contract signatures bind the signer to the contract's content.

use crate::engine::{no_panic, prop_sub, Obs, Property, Violation};
use crate::gen::values::{self, ContractM};
use crate::gen::{self};
use crate::model::vm::{bytes_to_words, words_to_bytes};
use crate::props::c17::{perturb_contract, shuffle, Perturb};
use crate::real::{exec_agrees_with_lockstep, lockstep, ExecCase, LockCfg};
use crate::{ensure, viol};
use essential_sign::secp256k1::ecdsa::{RecoverableSignature, RecoveryId};
use essential_sign::secp256k1::{PublicKey, Secp256k1, SecretKey};
use essential_types::contract::SignedContract;
use essential_types::Signature;
use proptest::prelude::*;
use serde::{Deserialize, Serialize};

/// secp256k1 group order n (big-endian).
const ORDER_N: [u8; 32] = [
    0xFF, 0xFF, 0xFF, 0xFF, 0xFF, 0xFF, 0xFF, 0xFF, 0xFF, 0xFF, 0xFF, 0xFF, 0xFF, 0xFF, 0xFF, 0xFE, 0xBA, 0xAE, 0xDC, 0xE6, 0xAF, 0x48, 0xA0, 0x3B, 0xBF, 0xD2, 0x5E, 0x8C,
    0xD0, 0x36, 0x41, 0x41,
];

/// The other valid form of an ECDSA signature: (r, n - s) with the parity bit of the recovery id flipped.
/// Both forms are well-formed and recover the same key.
pub fn high_s_twin(sig: &Signature) -> Signature {
    let mut out = sig.0;
    let mut borrow = 0i16;
    for i in (0..32).rev() {
        let d = ORDER_N[i] as i16 - sig.0[32 + i] as i16 - borrow;
        if d < 0 {
            out[32 + i] = (d + 256) as u8;
            borrow = 1;
        } else {
            out[32 + i] = d as u8;
            borrow = 0;
        }
    }
    Signature(out, sig.1 ^ 1)
}

fn secret(b: &[u8; 32]) -> SecretKey {
    SecretKey::from_slice(b).unwrap_or_else(|_| SecretKey::from_slice(&[0x11; 32]).unwrap())
}

fn public(sk: &SecretKey) -> PublicKey {
    PublicKey::from_secret_key(&Secp256k1::new(), sk)
}

#[derive(Clone, Debug, Hash, Serialize, Deserialize)]
pub struct SigCase {
    pub sk: [u8; 32],
    pub c: ContractM,
    pub perm: Vec<u32>,
    pub perturb: Perturb,
    pub sig_bit: u16,
}

fn within(c: &ContractM) -> bool {
    c.preds.len() <= 100 && c.preds.iter().all(|p| p.nodes.len() <= 1000 && p.edges.len() <= 1000)
}

fn oracle_roundtrip(sc: &SigCase, obs: &mut Obs) -> Result<(), Violation> {
    if !within(&sc.c) {
        obs.skip("beyond limits");
        return Ok(());
    }
    let sk = secret(&sc.sk);
    let pk = public(&sk);
    let contract = sc.c.to_real();
    let signed = no_panic("contract::sign", || essential_sign::contract::sign(contract.clone(), &sk))?;
    let rec = no_panic("contract::recover", || essential_sign::contract::recover(&signed))?;
    ensure!(rec.as_ref().ok() == Some(&pk), "sig:recover", "recover(sign(c, sk)) = {rec:?}, expected the signer's key");
    ensure!(no_panic("contract::verify", || essential_sign::contract::verify(&signed))?.is_ok(), "sig:verify", "verify(sign(c, sk)) fails");
    ensure!(
        no_panic("check_signed_contract", || essential_check::predicate::check_signed_contract(&signed))?.is_ok(),
        "sig:check-signed-contract",
        "check_signed_contract rejects a correctly signed contract within the limits"
    );
    // the (r, n-s) form of the same signature is equally recoverable
    let twin = SignedContract {
        contract: contract.clone(),
        signature: high_s_twin(&signed.signature),
    };
    ensure!(
        no_panic("contract::recover", || essential_sign::contract::recover(&twin))?.ok() == Some(pk),
        "sig:high-s",
        "the (r, n-s, id^1) form of the signature does not recover the signer"
    );
    ensure!(
        no_panic("check_signed_contract", || essential_check::predicate::check_signed_contract(&twin))?.is_ok(),
        "sig:high-s",
        "check_signed_contract rejects a recoverable (high-S) signature on a valid contract"
    );
    // independent of predicate order
    let mut shuffled = sc.c.clone();
    shuffled.preds = shuffle(&sc.c.preds, &sc.perm);
    let signed2 = SignedContract {
        contract: shuffled.to_real(),
        signature: signed.signature.clone(),
    };
    ensure!(
        essential_sign::contract::recover(&signed2).ok() == Some(pk),
        "sig:order",
        "the signature no longer recovers the signer after reordering the predicates"
    );
    // after any change of the content the signer's key is no longer recovered
    if let Some(changed) = perturb_contract(&sc.c, &sc.perturb) {
        let mut m1 = sc.c.preds.clone();
        let mut m2 = changed.preds.clone();
        m1.sort();
        m2.sort();
        if (m1 != m2 || sc.c.salt != changed.salt) && within(&changed) {
            let tampered = SignedContract {
                contract: changed.to_real(),
                signature: signed.signature.clone(),
            };
            let r = no_panic("contract::recover", || essential_sign::contract::recover(&tampered))?;
            ensure!(r.ok() != Some(pk), "sig:tamper-undetected", "after changing the contract ({:?}) the signature still recovers the signer's key", sc.perturb);
            obs.label("content-tampered");
            obs.nontrivial_if(!sc.c.preds.is_empty());
        }
    }
    // a flipped signature bit never recovers the signer either (and never panics)
    let mut bad = signed.clone();
    let i = (sc.sig_bit % 512) as usize;
    bad.signature.0[i / 8] ^= 1 << (i % 8);
    let r = no_panic("contract::recover", || essential_sign::contract::recover(&bad))?;
    ensure!(r.ok() != Some(pk), "sig:bitflip-undetected", "a signature with bit {i} flipped still recovers the signer's key");
    let v = no_panic("contract::verify", || essential_sign::contract::verify(&bad))?;
    let _ = v;
    if sc.perm.len() >= 2 && sc.c.preds.len() >= 2 {
        obs.nontrivial();
    }
    Ok(())
}

fn sig_case() -> impl Strategy<Value = SigCase> {
    let perturb = prop_oneof![
        4 => (any::<u32>(), any::<u8>(), any::<u8>()).prop_map(|(a, b, c)| Perturb::NodeByte(a, b, c)),
        2 => (any::<u32>(), any::<u16>()).prop_map(|(a, b)| Perturb::EdgeStart(a, b)),
        2 => (any::<u32>(), any::<u16>(), any::<u8>()).prop_map(|(a, b, c)| Perturb::EdgeStartTo(a, b, c)),
        2 => (any::<u32>(), any::<u16>()).prop_map(|(a, b)| Perturb::Edge(a, b)),
        3 => any::<u8>().prop_map(Perturb::SaltBit),
        1 => any::<u32>().prop_map(Perturb::DropPred),
        1 => any::<u32>().prop_map(Perturb::DupPred),
        1 => any::<u16>().prop_map(Perturb::ExtraEdge),
    ];
    (any::<[u8; 32]>(), values::contract(), proptest::collection::vec(any::<u32>(), 0..6), perturb, any::<u16>()).prop_map(|(sk, c, perm, perturb, sig_bit)| SigCase { sk, c, perm, perturb, sig_bit })
}

/// Every byte of a multi-KiB contract is bound by the signature.
#[derive(Clone, Debug, Hash, Serialize, Deserialize)]
pub struct BindCase {
    pub sk: [u8; 32],
    pub c: ContractM,
}

fn oracle_bind_exhaustive(bc: &BindCase, obs: &mut Obs) -> Result<(), Violation> {
    let sk = secret(&bc.sk);
    let pk = public(&sk);
    let signed = essential_sign::contract::sign(bc.c.to_real(), &sk);
    let mut n = 0u64;
    for (pi, p) in bc.c.preds.iter().enumerate() {
        // sample: every node, one byte position walking through all 34 offsets
        for ni in 0..p.nodes.len() {
            for bi in [ni % 34, (ni * 7 + 3) % 34, 0] {
                let mut c = bc.c.clone();
                if bi < 32 {
                    c.preds[pi].nodes[ni].1[bi] ^= 0x40;
                } else if bi == 32 {
                    c.preds[pi].nodes[ni].0 ^= 1;
                } else {
                    c.preds[pi].nodes[ni].0 ^= 0x100;
                }
                let t = SignedContract {
                    contract: c.to_real(),
                    signature: signed.signature.clone(),
                };
                let r = no_panic("contract::recover", || essential_sign::contract::recover(&t))?;
                ensure!(
                    r.ok() != Some(pk),
                    "sig:tamper-undetected",
                    "predicate {pi} node {ni} byte {bi}: the change is not bound by the signature ({} nodes)",
                    p.nodes.len()
                );
                n += 1;
            }
        }
    }
    obs.extra_evals += n;
    obs.nontrivial();
    Ok(())
}

/// Malformed signatures / recovery ids are errors, never panics; the valid id range is exactly 0..=3.
#[derive(Clone, Debug, Hash, Serialize, Deserialize)]
pub struct MalformedCase {
    pub sk: [u8; 32],
    pub digest: [u8; 32],
    pub pattern: u8,
    pub fill: u8,
}

fn oracle_malformed(mc: &MalformedCase, obs: &mut Obs) -> Result<(), Violation> {
    let sk = secret(&mc.sk);
    let pk = public(&sk);
    let good = essential_sign::sign_hash(mc.digest, &sk);
    ensure!(good.1 <= 3, "sig:id-range", "sign_hash produced recovery id {}", good.1);
    for id in 0..=255u8 {
        let s = Signature(good.0, id);
        let r = no_panic("recover_hash", || essential_sign::recover_hash(mc.digest, &s))?;
        let v = no_panic("verify_hash", || essential_sign::verify_hash(mc.digest, &s))?;
        if id > 3 {
            ensure!(r.is_err(), "sig:bad-id-accepted", "recovery id {id} is accepted by recover_hash");
            ensure!(v.is_err(), "sig:bad-id-accepted", "recovery id {id} is accepted by verify_hash");
        } else if id == good.1 {
            ensure!(r.ok() == Some(pk), "sig:recover", "recover_hash with the right id does not return the signer");
        } else {
            ensure!(r.ok() != Some(pk), "sig:id-ignored", "recovery id {id} (signed with {}) still recovers the signer", good.1);
        }
    }
    // arbitrary 65-byte strings
    let mut bytes = [mc.fill; 65];
    match mc.pattern % 6 {
        0 => {}
        1 => bytes = [0; 65],
        2 => bytes = [0xff; 65],
        3 => {
            bytes[..64].copy_from_slice(&good.0);
            bytes[64] = mc.fill;
        }
        4 => {
            bytes[..32].copy_from_slice(&[0; 32]);
            bytes[64] = mc.fill % 4;
        }
        _ => {
            for (i, b) in bytes.iter_mut().enumerate() {
                *b = mc.fill.wrapping_mul(i as u8 + 1);
            }
            bytes[64] %= 5;
        }
    }
    let s = Signature::from(bytes);
    let r = no_panic("recover_hash", || essential_sign::recover_hash(mc.digest, &s))?;
    let _ = r;
    no_panic("verify_hash", || essential_sign::verify_hash(mc.digest, &s))?;
    let sc = SignedContract {
        contract: Default::default(),
        signature: s,
    };
    no_panic("check_signed_contract", || essential_check::predicate::check_signed_contract(&sc).is_ok())?;
    obs.extra_evals += 256;
    obs.nontrivial();
    Ok(())
}

/// Word encodings: injective, big-endian bytes of the words, and what the VM's RecoverSecp256k1 consumes / produces.
#[derive(Clone, Debug, Hash, Serialize, Deserialize)]
pub struct EncCase {
    pub sk: [u8; 32],
    pub digest: [u8; 32],
}

fn oracle_encodings(ec: &EncCase, obs: &mut Obs) -> Result<(), Violation> {
    let sk = secret(&ec.sk);
    let pk = public(&sk);
    let sig = essential_sign::sign_hash(ec.digest, &sk);
    let rid = RecoveryId::try_from(sig.1 as i32).map_err(|e| viol!("sig:id-range", "{e}"))?;
    let rsig = RecoverableSignature::from_compact(&sig.0, rid).map_err(|e| viol!("sig:own-signature-malformed", "{e}"))?;
    // public key: 33 compressed bytes -> 4 words + 1 word holding the last byte; decodes back
    let pkw = essential_sign::encode::public_key(&pk);
    let ser = pk.serialize();
    ensure!(pkw[..4] == bytes_to_words(&ser[..32])[..] && pkw[4] == ser[32] as i64, "sig:pk-encoding", "encode::public_key is not [4 BE words of bytes 0..32, last byte]");
    let mut back = words_to_bytes(&pkw[..4]);
    back.push(pkw[4] as u8);
    ensure!(PublicKey::from_slice(&back).ok() == Some(pk), "sig:pk-encoding", "encode::public_key does not decode back to the key");
    ensure!(essential_sign::encode::public_key_as_bytes(&pk)[..] == words_to_bytes(&pkw)[..], "sig:pk-bytes", "public_key_as_bytes is not the BE bytes of the words");
    // signature: 8 words + recovery id
    let sw = essential_sign::encode::signature(&rsig);
    ensure!(sw[..8] == bytes_to_words(&sig.0)[..] && sw[8] == sig.1 as i64, "sig:sig-encoding", "encode::signature is not [8 BE words of the compact signature, recovery id]");
    ensure!(essential_sign::encode::signature_as_bytes(&rsig)[..] == words_to_bytes(&sw)[..], "sig:sig-bytes", "signature_as_bytes is not the BE bytes of the words");
    // every recovery id is part of the encoding: (r, s, 0..=3) give four different word strings, each ending in its id
    {
        let mut seen: Vec<[i64; 9]> = Vec::new();
        for id in 0..4i32 {
            let rid = RecoveryId::try_from(id).map_err(|e| viol!("sig:id-range", "{e}"))?;
            let Ok(rs) = RecoverableSignature::from_compact(&sig.0, rid) else { continue };
            let w = essential_sign::encode::signature(&rs);
            ensure!(w[..8] == bytes_to_words(&sig.0)[..] && w[8] == id as i64, "sig:sig-encoding", "encode::signature of (r, s, id {id}) is {w:?}");
            ensure!(!seen.contains(&w), "sig:sig-encoding-not-injective", "recovery id {id} encodes like another id: {w:?}");
            ensure!(essential_sign::encode::signature_as_bytes(&rs)[..] == words_to_bytes(&w)[..], "sig:sig-bytes", "signature_as_bytes is not the BE bytes of the words (id {id})");
            seen.push(w);
        }
    }
    // crafted signatures with a tiny r and recovery id 2 / 3 (R.x = r + n): whenever the sign crate recovers a key from
    // them, the VM must produce exactly that key's words from their word encoding
    for k in 0..6usize {
        let mut b = [0u8; 64];
        b[31] = ec.digest[k] | 1;
        b[63] = 1 + (ec.sk[k] % 3);
        for id in 2..4u8 {
            let crafted = Signature(b, id);
            let Ok(key) = essential_sign::recover_hash(ec.digest, &crafted) else { continue };
            let rid = RecoveryId::try_from(id as i32).map_err(|e| viol!("sig:id-range", "{e}"))?;
            let rs = RecoverableSignature::from_compact(&b, rid).map_err(|e| viol!("sig:crafted-malformed", "{e}"))?;
            let w = essential_sign::encode::signature(&rs);
            let mut case = ExecCase::simple(vec![crate::model::ops::MOp::RSECP]);
            case.init.stack = bytes_to_words(&ec.digest);
            case.init.stack.extend(w);
            let sum = lockstep(&case, &LockCfg { budget: 10, breadth_cap: 1, record_ops: false }, obs)?;
            let want = essential_sign::encode::public_key(&key).to_vec();
            ensure!(
                sum.failed_at.is_none() && sum.final_state.stack == want,
                "sig:vm-recover-differs",
                "signature (r = {}, s = {}, id {id}): the sign crate recovers a key, RecoverSecp256k1 on its word encoding gives {:?}",
                b[31],
                b[63],
                sum.final_state.stack
            );
            obs.label("crafted-id-2/3-recoverable");
        }
    }
    // the same through the high-S form: encodes to different words, decodes back, and the VM recovers the same key
    {
        let hs = high_s_twin(&sig);
        let hrid = RecoveryId::try_from(hs.1 as i32).map_err(|e| viol!("sig:id-range", "{e}"))?;
        let hrsig = RecoverableSignature::from_compact(&hs.0, hrid).map_err(|e| viol!("sig:high-s-malformed", "{e}"))?;
        let hw = essential_sign::encode::signature(&hrsig);
        ensure!(hw[..8] == bytes_to_words(&hs.0)[..] && hw[8] == hs.1 as i64, "sig:sig-encoding", "encode::signature changes a high-S signature: {hw:?}");
        ensure!(hw != sw, "sig:sig-encoding-not-injective", "the two forms of a signature encode to the same words");
        let mut case = ExecCase::simple(vec![crate::model::ops::MOp::RSECP]);
        case.init.stack = bytes_to_words(&ec.digest);
        case.init.stack.extend(hw);
        let sum = lockstep(&case, &LockCfg { budget: 10, breadth_cap: 1, record_ops: false }, obs)?;
        ensure!(sum.failed_at.is_none() && sum.final_state.stack == pkw.to_vec(), "sig:vm-recover-differs", "RecoverSecp256k1 on the high-S form gives {:?}", sum.final_state.stack);
    }
    // message-level helpers agree with the hash-level ones
    let msg = essential_sign::secp256k1::Message::from_digest(ec.digest);
    ensure!(essential_sign::sign_message(&msg, &sk) == sig, "sig:sign-message", "sign_message and sign_hash disagree");
    ensure!(essential_sign::recover_from_message(&msg, &sig).ok() == Some(pk), "sig:recover-message", "recover_from_message does not return the signer");
    ensure!(essential_sign::verify_message(&msg, &sig.0, &pk).is_ok(), "sig:verify-message", "verify_message rejects a valid signature");
    let other = public(&secret(&ec.digest));
    if other != pk {
        ensure!(essential_sign::verify_message(&msg, &sig.0, &other).is_err(), "sig:verify-message", "verify_message accepts the signature for a different public key");
    }
    let mut other_digest = ec.digest;
    other_digest[0] ^= 1;
    let msg2 = essential_sign::secp256k1::Message::from_digest(other_digest);
    ensure!(essential_sign::verify_message(&msg2, &sig.0, &pk).is_err(), "sig:verify-message", "verify_message accepts the signature for a different message");
    // the VM consumes exactly digest ++ signature words and produces exactly the public key words
    let mut case = ExecCase::simple(vec![crate::model::ops::MOp::RSECP]);
    case.init.stack = bytes_to_words(&ec.digest);
    case.init.stack.extend(sw);
    let sum = lockstep(&case, &LockCfg { budget: 10, breadth_cap: 1, record_ops: false }, obs)?;
    exec_agrees_with_lockstep(&case, &sum)?;
    ensure!(sum.failed_at.is_none(), "sig:vm-recover-fails", "RecoverSecp256k1 fails on a valid signature encoding");
    ensure!(sum.final_state.stack == pkw.to_vec(), "sig:vm-recover-differs", "RecoverSecp256k1 gives {:?}, encode::public_key gives {pkw:?}", sum.final_state.stack);
    obs.nontrivial();
    Ok(())
}

pub fn property() -> Property {
    Property {
        id: "C19",
        rule: "generated secret keys, contracts (0..20 predicates incl. repeated ones, multi-KiB predicates, zero/non-zero salts), predicate permutations, single-field tamperings (address byte, edge_start, edge, salt bit, predicate dropped / repeated, extra edge), one flipped signature bit; for multi-KiB contracts every node is tampered at rotating byte offsets (all 34 offsets are visited); for each generated (key, digest) all 256 recovery-id bytes are swept and boundary / random 65-byte strings are fed to recover, verify and check_signed_contract; encode::public_key / encode::signature are decoded by the harness and fed through the VM's RecoverSecp256k1. Oracle: recover(sign(c,sk)) == pk(sk), verify and check_signed_contract Ok, same after permuting; after any content change or signature bit flip the recovered key differs (or recovery fails); ids > 3 are errors, other ids never recover the signer; never a panic; word encodings decode back and equal what the VM consumes/produces. Non-trivial = contract with >= 1 predicate under a permutation or tampering, the id sweep, or the VM cross-check.",
        assumptions: vec!["a 2^-128 accident (tampered contract recovering the same key) is ignored"],
        health: vec![("sig.contract_roundtrip_tamper", "content-tampered", 400)],
        subs: vec![
            prop_sub("sig.contract_roundtrip_tamper", 80_000, 640_000, |_| sig_case(), oracle_roundtrip),
            prop_sub(
                "sig.bind_exhaustive",
                192,
                1_536,
                |_| {
                    (any::<[u8; 32]>(), values::pred_sized(40usize..90, 0usize..30), gen::bytes32()).prop_map(|(sk, p, salt)| BindCase {
                        sk,
                        c: ContractM { preds: vec![p], salt },
                    })
                },
                oracle_bind_exhaustive,
            )
            .shards(16),
            prop_sub(
                "sig.malformed",
                1_600,
                12_800,
                |_| (any::<[u8; 32]>(), any::<[u8; 32]>(), any::<u8>(), any::<u8>()).prop_map(|(sk, digest, pattern, fill)| MalformedCase { sk, digest, pattern, fill }),
                oracle_malformed,
            ),
            prop_sub("sig.encodings_vm", 32_000, 300_000, |_| (any::<[u8; 32]>(), any::<[u8; 32]>()).prop_map(|(sk, digest)| EncCase { sk, digest }), oracle_encodings),
        ],
    }
}
