//! C06 — Checker and decoders are total on untrusted input.

use crate::chk::{build_world, run_real, RunEnv};
use crate::engine::{enum_sub, no_panic, prop_sub, Obs, Property, Tier, Violation};
use crate::gen::graphs::{graph_case, GraphCfg};
use crate::model::codec;
use crate::model::graph::{edge_slices, GraphCase, NodeSpec, PredSpec};
use crate::{ensure, viol};
use essential_check::solution::check_set;
use essential_types::predicate::{Node, Predicate};
use essential_types::solution::decode::{decode_mutation, decode_mutations};
use essential_types::ContentAddress;
use proptest::prelude::*;
use serde::{Deserialize, Serialize};

#[derive(Clone, Debug, Hash, Serialize, Deserialize)]
pub struct Words(pub Vec<i64>);

#[derive(Clone, Debug, Hash, Serialize, Deserialize)]
pub struct Bytes(pub Vec<u8>);

/// Decoders return a value or a typed error; whatever they return is consistent with the input in the one
/// direction every correct decoder satisfies.
fn oracle_words(w: &Words, obs: &mut Obs) -> Result<(), Violation> {
    let ws = &w.0;
    let one = no_panic("decode_mutation", || decode_mutation(ws))?;
    if let Ok(m) = &one {
        let mut enc = Vec::new();
        codec::encode_mutation(&(m.key.clone(), m.value.clone()), &mut enc);
        ensure!(
            ws.len() >= enc.len() && ws[..enc.len()] == enc[..],
            "dec:mutation-not-in-input",
            "decode_mutation({ws:?}) = {m:?}, whose encoding {enc:?} is not a prefix of the input"
        );
        // and it agrees with the strict reference decoder
        let r = codec::decode_mutation_prefix(ws).map(|(m, _)| m);
        ensure!(r == Some((m.key.clone(), m.value.clone())), "dec:mutation-differs", "decode_mutation({ws:?}) = {m:?}, reference {r:?}");
        obs.label("mutation-ok");
    } else {
        ensure!(
            codec::decode_mutation_prefix(ws).is_none(),
            "dec:mutation-rejected",
            "decode_mutation rejects {ws:?}, which starts with a well-formed mutation"
        );
    }
    let many = no_panic("decode_mutations", || decode_mutations(ws))?;
    if let Ok(ms) = &many {
        // the mutations appear consecutively from word 1
        let mut enc = Vec::new();
        for m in ms {
            codec::encode_mutation(&(m.key.clone(), m.value.clone()), &mut enc);
        }
        ensure!(
            ws.len() > enc.len() || (ws.len() == enc.len() + 1),
            "dec:mutations-not-in-input",
            "decode_mutations({ws:?}) returned more words than the input holds"
        );
        ensure!(
            ms.is_empty() || ws[1..1 + enc.len()] == enc[..],
            "dec:mutations-not-in-input",
            "decode_mutations({ws:?}) = {ms:?} does not appear in the input from word 1"
        );
        obs.label("mutations-ok");
    }
    // canonical lists must be accepted exactly
    if let Some(cm) = codec::decode_mutations_canonical(ws) {
        match &many {
            Ok(ms) => {
                let got: Vec<_> = ms.iter().map(|m| (m.key.clone(), m.value.clone())).collect();
                ensure!(got == cm, "dec:canonical-differs", "decode_mutations({ws:?}) = {got:?}, canonical reading {cm:?}");
            }
            Err(e) => return Err(viol!("dec:canonical-rejected", "decode_mutations rejects the canonical list {ws:?}: {e:?}")),
        }
        obs.label("canonical");
    }
    obs.nontrivial_if(ws.len() >= 2);
    Ok(())
}

const WORD_ALPHABET: &[i64] = &[-1, 0, 1, 2, 3, 5, i64::MAX];

fn word_strings(t: Tier) -> Box<dyn Iterator<Item = Words>> {
    let max_len = t.pick(4usize, 6usize);
    let n = WORD_ALPHABET.len();
    let mut total = 1usize;
    for l in 1..=max_len {
        total += n.pow(l as u32);
    }
    Box::new((0..total).map(move |mut ix| {
        if ix == 0 {
            return Words(vec![]);
        }
        ix -= 1;
        let mut len = 1;
        let mut block = n;
        while ix >= block {
            ix -= block;
            len += 1;
            block *= n;
        }
        let mut v = Vec::with_capacity(len);
        for _ in 0..len {
            v.push(WORD_ALPHABET[ix % n]);
            ix /= n;
        }
        Words(v)
    }))
}

fn random_words() -> impl Strategy<Value = Words> {
    let w = || prop_oneof![4 => 0i64..4, 2 => crate::gen::boundary_word(), 1 => Just(1i64 << 40), 1 => any::<i64>()];
    prop_oneof![
        2 => proptest::collection::vec(w(), 0..64),
        // valid list with one word changed / truncated
        3 => (proptest::collection::vec((proptest::collection::vec(0i64..5, 0..4), proptest::collection::vec(0i64..5, 0..4)), 0..6), proptest::option::of((any::<u32>(), w())), any::<u32>()).prop_map(|(ms, change, cut)| {
            let mut v = codec::encode_mutations(&ms);
            if let Some((pos, val)) = change {
                let i = crate::gen::pick_ix(pos, v.len());
                v[i] = val;
            }
            let keep = v.len() - crate::gen::pick_ix(cut, v.len() + 1) / 4;
            v.truncate(keep);
            v
        }),
    ]
    .prop_map(Words)
}

fn oracle_pred_bytes(b: &Bytes, obs: &mut Obs) -> Result<(), Violation> {
    let bytes = &b.0;
    let r = no_panic("Predicate::decode", || Predicate::decode(bytes))?;
    match (&r, codec::decode_predicate_prefix(bytes)) {
        (Ok(p), Some((nodes, edges, _used))) => {
            let got_nodes: Vec<(u16, [u8; 32])> = p.nodes.iter().map(|n| (n.edge_start, n.program_address.0)).collect();
            ensure!(got_nodes == nodes && p.edges == edges, "dec:predicate-differs", "Predicate::decode differs from the documented layout for {bytes:02x?}");
            obs.label("predicate-ok");
            // node_edges is total for every index and matches the documented slices
            let spec = PredSpec {
                nodes: p.nodes.iter().map(|n| NodeSpec { edge_start: n.edge_start, prog: 0 }).collect(),
                edges: p.edges.clone(),
            };
            check_node_edges(p, &spec)?;
        }
        (Err(_), None) => obs.label("predicate-rejected"),
        (Ok(p), None) => return Err(viol!("dec:predicate-accepts-short", "Predicate::decode accepts {bytes:02x?} as {p:?} although the bytes are too short")),
        (Err(e), Some(_)) => return Err(viol!("dec:predicate-rejects-valid", "Predicate::decode rejects a well-formed encoding ({e:?}): {bytes:02x?}")),
    }
    obs.nontrivial_if(bytes.len() >= 2);
    Ok(())
}

pub fn check_node_edges(p: &Predicate, spec: &PredSpec) -> Result<(), Violation> {
    // reference slices node by node (a malformed slice only affects that node)
    for i in 0..p.nodes.len() + 2 {
        let got = no_panic("Predicate::node_edges", || p.node_edges(i).map(|e| e.to_vec()))?;
        let want: Option<Vec<u16>> = if i >= spec.nodes.len() {
            None
        } else {
            let single = PredSpec {
                nodes: spec.nodes[i..(i + 2).min(spec.nodes.len())].to_vec(),
                edges: spec.edges.clone(),
            };
            match edge_slices(&single) {
                Ok(s) => Some(s[0].clone()),
                Err(0) => None,
                Err(_) => {
                    // the following node is malformed, this one is fine: recompute without it
                    let n = &spec.nodes[i];
                    if n.edge_start == u16::MAX {
                        Some(vec![])
                    } else {
                        let start = n.edge_start as usize;
                        let end = match spec.nodes.get(i + 1) {
                            Some(nx) if nx.edge_start != u16::MAX => nx.edge_start as usize,
                            _ => spec.edges.len(),
                        };
                        if start <= end && end <= spec.edges.len() {
                            Some(spec.edges[start..end].to_vec())
                        } else {
                            None
                        }
                    }
                }
            }
        };
        ensure!(got == want, "dec:node-edges", "node_edges({i}) = {got:?}, documented sub-range is {want:?} (nodes {:?}, {} edges)", spec.nodes.iter().map(|n| n.edge_start).collect::<Vec<_>>(), spec.edges.len());
    }
    Ok(())
}

fn pred_bytes() -> impl Strategy<Value = Bytes> {
    let count = || prop_oneof![4 => 0u16..4, 1 => Just(1000u16), 1 => Just(1001u16), 1 => Just(65535u16), 1 => any::<u16>()];
    prop_oneof![
        2 => proptest::collection::vec(any::<u8>(), 0..8),
        // plausible header, body of the right / almost right length
        5 => (count(), count(), -3i64..4, any::<u8>(), any::<u16>()).prop_map(|(n, m, delta, fill, es)| {
            let (n, m) = (n.min(1100), m.min(1100));
            let mut b = vec![(n >> 8) as u8, n as u8];
            for i in 0..n {
                let e = if i % 3 == 0 { u16::MAX } else { es.wrapping_add(i) % (m.max(1) + 2) };
                b.push((e >> 8) as u8);
                b.push(e as u8);
                b.extend(std::iter::repeat(fill.wrapping_add(i as u8)).take(32));
            }
            b.push((m >> 8) as u8);
            b.push(m as u8);
            for i in 0..m {
                b.push(0);
                b.push((i % (n.max(1) + 1)) as u8);
            }
            let len = (b.len() as i64 + delta).max(0) as usize;
            b.resize(len, fill);
            b
        }),
        // cut after the first byte of the edge count
        1 => (0u16..4).prop_map(|n| {
            let mut b = vec![0, n as u8];
            b.extend(std::iter::repeat(7).take(34 * n as usize));
            b.push(0);
            b
        }),
    ]
    .prop_map(Bytes)
}

fn pred_bytes_exhaustive(_t: Tier) -> Box<dyn Iterator<Item = Bytes>> {
    let alpha = [0u8, 1, 2, 3, 0xff];
    let mut v = vec![Bytes(vec![])];
    for a in alpha {
        v.push(Bytes(vec![a]));
        for b in alpha {
            v.push(Bytes(vec![a, b]));
            for c in alpha {
                v.push(Bytes(vec![a, b, c]));
                for d in alpha {
                    v.push(Bytes(vec![a, b, c, d]));
                }
            }
        }
    }
    Box::new(v.into_iter())
}

/// Arbitrary `Predicate` values: node_edges for every index, check entry points.
#[derive(Clone, Debug, Hash, Serialize, Deserialize)]
pub struct RawPred {
    pub starts: Vec<u16>,
    pub edges: Vec<u16>,
}

fn oracle_raw_pred(r: &RawPred, obs: &mut Obs) -> Result<(), Violation> {
    let p = Predicate {
        nodes: r.starts.iter().map(|s| Node { edge_start: *s, program_address: ContentAddress([1; 32]) }).collect(),
        edges: r.edges.clone(),
    };
    let spec = PredSpec {
        nodes: r.starts.iter().map(|s| NodeSpec { edge_start: *s, prog: 0 }).collect(),
        edges: r.edges.clone(),
    };
    check_node_edges(&p, &spec)?;
    no_panic("predicate::check", || essential_check::predicate::check(&p).is_ok())?;
    no_panic("check_contract", || essential_check::predicate::check_contract(std::slice::from_ref(&p)).is_ok())?;
    no_panic("content_addr", || essential_hash::content_addr(&p))?;
    no_panic("encode", || p.encode().map(|i| i.count()).ok())?;
    obs.nontrivial_if(r.starts.len() >= 2);
    Ok(())
}

fn raw_pred() -> impl Strategy<Value = RawPred> {
    (0usize..8).prop_flat_map(|n| {
        (
            proptest::collection::vec(prop_oneof![3 => 0u16..8, 2 => Just(u16::MAX), 1 => any::<u16>()], n),
            proptest::collection::vec(prop_oneof![4 => 0u16..8, 1 => any::<u16>()], 0..10),
        )
            .prop_map(|(starts, edges)| RawPred { starts, edges })
    })
}

/// A contract as an untrusted party may hand it in: any number of predicates, the first of any size, with a
/// signature that is genuine, arbitrary bytes, or carries any recovery id.
#[derive(Clone, Debug, Hash, Serialize, Deserialize)]
pub struct RawContract {
    pub nodes: usize,
    pub edges: usize,
    /// edge_start of node i: 0 = leaf marker everywhere but node 0, 1 = i, 2 = all zero, 3 = the number of edges
    pub starts: u8,
    pub predicates: usize,
    /// None = genuine signature over the contract
    pub sig: Option<(Vec<u8>, u8)>,
    pub salt: u8,
}

fn oracle_raw_contract(r: &RawContract, obs: &mut Obs) -> Result<(), Violation> {
    let first = Predicate {
        nodes: (0..r.nodes)
            .map(|i| Node {
                edge_start: match r.starts {
                    0 => {
                        if i == 0 {
                            0
                        } else {
                            u16::MAX
                        }
                    }
                    1 => i as u16,
                    2 => 0,
                    _ => r.edges as u16,
                },
                program_address: ContentAddress([3; 32]),
            })
            .collect(),
        edges: (0..r.edges).map(|i| i as u16).collect(),
    };
    let mut predicates = vec![first];
    for i in 1..r.predicates {
        predicates.push(Predicate {
            nodes: vec![Node { edge_start: u16::MAX, program_address: ContentAddress([(i % 251) as u8; 32]) }],
            edges: vec![],
        });
    }
    predicates.truncate(r.predicates);
    let contract = essential_types::contract::Contract { predicates, salt: [r.salt; 32] };
    for p in contract.predicates.iter().take(1) {
        no_panic("predicate::check", || essential_check::predicate::check(p).is_ok())?;
        no_panic("content_addr(predicate)", || essential_hash::content_addr(p))?;
        no_panic("Predicate::encode", || p.encode().map(|i| i.count()).ok())?;
        no_panic("Predicate::encoded_size", || p.encoded_size())?;
    }
    no_panic("check_contract", || essential_check::predicate::check_contract(&contract.predicates).is_ok())?;
    no_panic("content_addr(contract)", || essential_hash::content_addr(&contract))?;
    let signature = match &r.sig {
        None => {
            let sk = essential_sign::secp256k1::SecretKey::from_slice(&[0x42; 32]).unwrap();
            let c = contract.clone();
            no_panic("contract::sign", move || essential_sign::contract::sign(c, &sk).signature)?
        }
        Some((bytes, id)) => {
            let mut b = [0u8; 64];
            for (d, s) in b.iter_mut().zip(bytes.iter().chain(std::iter::repeat(&0))) {
                *d = *s;
            }
            essential_types::Signature(b, *id)
        }
    };
    let signed = essential_types::contract::SignedContract { contract, signature };
    let accepted = no_panic("check_signed_contract", || essential_check::predicate::check_signed_contract(&signed).is_ok())?;
    no_panic("contract::verify", || essential_sign::contract::verify(&signed).is_ok())?;
    no_panic("contract::recover", || essential_sign::contract::recover(&signed).is_ok())?;
    let oversize = r.nodes > 1000 || r.edges > 1000 || r.predicates > 100;
    obs.label(if accepted { "accepted" } else { "rejected" });
    if oversize {
        obs.label("oversize");
    }
    obs.nontrivial_if(oversize || r.sig.is_some());
    Ok(())
}

fn raw_contract() -> impl Strategy<Value = RawContract> {
    let size = || prop_oneof![3 => 0usize..4, 1 => Just(999usize), 2 => Just(1000usize), 3 => Just(1001usize), 1 => Just(1002usize), 1 => 1003usize..70_000, 1 => Just(65_535usize), 1 => Just(65_536usize)];
    let sig = prop_oneof![
        3 => Just(None),
        2 => (proptest::collection::vec(any::<u8>(), 0..65), any::<u8>()).prop_map(Some),
        1 => (Just(vec![0u8; 64]), 0u8..5).prop_map(Some),
        1 => (Just(vec![0xffu8; 64]), 0u8..5).prop_map(Some),
    ];
    (size(), size(), 0u8..4, prop_oneof![2 => 0usize..4, 1 => Just(99usize), 1 => Just(100usize), 1 => Just(101usize), 1 => 102usize..300], sig, any::<u8>())
        .prop_map(|(nodes, edges, starts, predicates, sig, salt)| RawContract { nodes, edges, starts, predicates, sig, salt })
}

/// Whole-checker totality on hostile cases (cyclic / dangling / malformed graphs, invalid data outputs,
/// enormous read counts, unvalidated sets): any result, no panic / abort / hang.
fn oracle_hostile(case: &GraphCase, obs: &mut Obs) -> Result<(), Violation> {
    let world = build_world(case);
    let valid = no_panic("check_set", || check_set(&world.set).is_ok())?;
    // the documented precondition of the check entry points is a validated set; unvalidated sets only go to check_set
    if !valid {
        obs.label("unvalidated-set-rejected");
        obs.nontrivial();
        return Ok(());
    }
    let run = run_real(case, &world, &RunEnv { log: None, delay: None })?;
    if run.error.is_some() {
        obs.label("typed-error");
    } else {
        obs.label("ok");
    }
    let executed = case.predicates.iter().any(|p| p.nodes.len() >= 2);
    obs.nontrivial_if(executed);
    Ok(())
}

pub fn property() -> Property {
    Property {
        id: "C06",
        rule: "bounded-exhaustive: every word string of length <= 4 (thorough <= 6) over {-1,0,1,2,3,5,i64::MAX} for decode_mutation / decode_mutations, every byte string of length <= 4 over {0,1,2,3,0xff} for Predicate::decode; generated: word strings up to 64 words and mutated/truncated valid lists, predicate byte strings with plausible headers (counts 0..3, 1000, 1001, 65535) and bodies of the right length +-3, arbitrary Predicate values (node_edges for every index 0..n+1, predicate::check, check_contract, content_addr, encode), contracts of 0..300 predicates whose first predicate has {0..3, 999..1002, 65535, 65536, random up to 70000} nodes / edges with genuine, arbitrary or out-of-range signatures through predicate::check, check_contract, check_signed_contract, content_addr, Predicate::encode/encoded_size and the sign crate's sign / verify / recover, and whole-checker cases: 30% corrupted graphs (cycles, self loops, out-of-range and decreasing edge_start), 15% dangling targets, data-output memories that are arbitrary word strings ([1,1,5], [i64::MAX], [2^40], negative lengths), pre/post reads with counts {i64::MAX, 2^40, 5121, 5120, -1, i64::MIN}, slot collisions, through all three entry modes, in a supervised child process. Oracle: a result or typed error, never a panic / abort / hang; decoders additionally agree with the strict reference decoder whenever the input is canonical and never return something that is not in the input. Non-trivial = the input reaches past the first length check (decoders) or a graph with >= 2 nodes is checked (checker).",
        assumptions: vec![
            "every referenced predicate/program exists in the getters and check_set ran first (documented preconditions)",
            "node programs terminate by construction (the checker runs them with unlimited gas)",
        ],
        health: vec![("chk.pipeline_hostile", "ok", 20), ("chk.pipeline_hostile", "typed-error", 300)],
        subs: vec![
            enum_sub("dec.mutations_exhaustive", word_strings, oracle_words).may_abort(),
            prop_sub("dec.mutations_random", 90_000, 1_500_000, |_| random_words(), oracle_words).may_abort(),
            enum_sub("dec.predicate_bytes_exhaustive", pred_bytes_exhaustive, oracle_pred_bytes).may_abort(),
            prop_sub("dec.predicate_bytes", 9_000, 100_000, |_| pred_bytes(), oracle_pred_bytes).may_abort(),
            prop_sub("dec.raw_predicates", 60_000, 800_000, |_| raw_pred(), oracle_raw_pred).may_abort(),
            prop_sub("chk.contracts_hostile", 6_000, 120_000, |_| raw_contract(), oracle_raw_contract).may_abort(),
            prop_sub(
                "chk.pipeline_hostile",
                75_000,
                1_000_000,
                |_| {
                    graph_case(GraphCfg {
                        max_nodes: 8,
                        corrupt_pct: 30,
                        dangling_pct: 15,
                        hostile: true,
                        slot_collision_pct: 5,
                        ..Default::default()
                    })
                },
                oracle_hostile,
            )
            .may_abort(),
        ],
    }
}

pub fn oracle_words_pub(ws: &[i64], obs: &mut Obs) -> Result<(), Violation> {
    oracle_words(&Words(ws.to_vec()), obs)
}
pub fn oracle_pred_bytes_pub(b: &[u8], obs: &mut Obs) -> Result<(), Violation> {
    oracle_pred_bytes(&Bytes(b.to_vec()), obs)
}
pub fn oracle_hostile_pub(c: &GraphCase, obs: &mut Obs) -> Result<(), Violation> {
    oracle_hostile(c, obs)
}
