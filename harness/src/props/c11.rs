//! C11 — State-read ops pass the exact request and lay results out as documented.

use crate::doubles::{Log, MapSpec, StateSpec, ViewSpec};
use crate::engine::{prop_sub, Obs, Property, Violation};
use crate::gen;
use crate::model::ops::MOp::{self, *};
use crate::model::vm::{bytes_to_words, words_to_bytes, MSolution};
use crate::real::{exec_agrees_with_lockstep, lockstep, run_exec_logged, ExecCase, LockCfg};
use crate::ensure;
use proptest::prelude::*;
use serde::{Deserialize, Serialize};
use std::sync::Arc;

#[derive(Clone, Debug, Hash, PartialEq, Eq, Serialize, Deserialize)]
pub struct SrCase {
    pub op: MOp,
    pub below: Vec<i64>,
    pub ext: [u8; 32],
    pub key: Vec<i64>,
    pub klen: i64,
    pub count: i64,
    pub addr: i64,
    pub memory: Vec<i64>,
    pub own_contract: [u8; 32],
    pub state: StateSpec,
}

impl SrCase {
    fn is_ext(&self) -> bool {
        matches!(self.op, KREX | PKREX)
    }
    fn is_post(&self) -> bool {
        matches!(self.op, PKRNG | PKREX)
    }
    fn stack(&self) -> Vec<i64> {
        let mut s = self.below.clone();
        if self.is_ext() {
            s.extend(bytes_to_words(&self.ext));
        }
        s.extend(&self.key);
        s.extend([self.klen, self.count, self.addr]);
        s
    }
    /// The request the op must make, restated independently of the model: None if an operand is invalid.
    fn expected_request(&self) -> Option<(bool, [u8; 32], Vec<i64>, usize, Vec<i64>)> {
        let mut s = self.stack();
        let addr = s.pop()?;
        let count = s.pop()?;
        let klen = s.pop()?;
        if addr < 0 || count < 0 || klen < 0 || klen as usize > s.len() {
            return None;
        }
        let key = s.split_off(s.len() - klen as usize);
        let contract = if self.is_ext() {
            if s.len() < 4 {
                return None;
            }
            let a = s.split_off(s.len() - 4);
            let b: [u8; 32] = words_to_bytes(&a).try_into().ok()?;
            b
        } else {
            self.own_contract
        };
        Some((self.is_post(), contract, key, count as usize, s))
    }
    fn exec_case(&self) -> ExecCase {
        let mut c = ExecCase::simple(vec![self.op]);
        c.init.stack = self.stack();
        c.init.memory = self.memory.clone();
        c.solutions = vec![
            MSolution {
                contract: [0x55; 32],
                predicate: [1; 32],
                data: vec![],
                mutations: vec![],
            },
            MSolution {
                contract: self.own_contract,
                predicate: [2; 32],
                data: vec![],
                mutations: vec![],
            },
        ];
        c.index = 1;
        c.state = self.state.clone();
        c
    }
}

fn oracle(sc: &SrCase, obs: &mut Obs) -> Result<(), Violation> {
    if sc.stack().len() > 4096 {
        obs.skip("stack too large");
        return Ok(());
    }
    let case = sc.exec_case();
    let cfg = LockCfg {
        budget: 10,
        breadth_cap: 1,
        record_ops: false,
    };
    // (1) layout, stack, errors (incl. the unchanged state error payload) against RefVm
    let sum = lockstep(&case, &cfg, obs)?;
    exec_agrees_with_lockstep(&case, &sum)?;
    // (2) the request itself
    let log = Arc::new(Log::default());
    let out = run_exec_logged(&case, false, Some(log.clone()))?;
    let reqs = log.reqs.lock().unwrap().clone();
    match sc.expected_request() {
        None => {
            ensure!(out.result.is_err(), "sr:bad-operands-accepted", "invalid operands accepted: {:?}", sc.stack());
            ensure!(reqs.is_empty(), "sr:request-despite-bad-operands", "state was asked although an operand is invalid: {reqs:?}");
            obs.label("invalid-operands");
        }
        Some((post, contract, key, count, rest)) => {
            ensure!(
                reqs.len() == 1,
                "sr:request-count",
                "expected exactly one state request (post={post}, key={key:?}, count={count}), saw {}: {reqs:?}",
                reqs.len()
            );
            let r = &reqs[0];
            ensure!(r.post == post, "sr:wrong-view", "asked the {} view, expected {}", if r.post { "post" } else { "pre" }, if post { "post" } else { "pre" });
            ensure!(r.contract == contract, "sr:wrong-contract", "asked contract {:02x?}.., expected {:02x?}..", &r.contract[..8], &contract[..8]);
            ensure!(r.key == key, "sr:wrong-key", "asked key {:?}, expected {key:?}", r.key);
            ensure!(r.count == count, "sr:wrong-count", "asked for {} values, expected {count}", r.count);
            if out.result.is_ok() {
                // memory never grows; words outside the written region unchanged is implied by the exact
                // comparison with RefVm above, the length is restated here
                ensure!(out.fin.memory.len() == sc.memory.len(), "sr:memory-grown", "memory length changed from {} to {}", sc.memory.len(), out.fin.memory.len());
                ensure!(
                    out.fin.stack == rest,
                    "sr:stack-below-changed",
                    "stack words below the operands changed: expected {rest:?}, VM has {:?}",
                    out.fin.stack
                );
            }
        }
    }
    // classification
    let view = if sc.is_post() { &sc.state.post } else { &sc.state.pre };
    if let (Ok(_), ViewSpec::Scripted(Ok(vals))) = (&out.result, view) {
        let ragged = vals.iter().map(|v| v.len()).collect::<std::collections::BTreeSet<_>>().len() > 1;
        if !vals.is_empty() && (ragged || sc.addr != 0 || sc.count as usize != vals.len()) {
            obs.nontrivial();
            obs.label("values-written");
        }
    } else if let (Ok(_), ViewSpec::Map(_)) = (&out.result, view) {
        if sc.count > 0 {
            obs.nontrivial_if(sc.addr != 0 || sc.count > 1);
            obs.label("values-written");
        }
    }
    match &out.result {
        Ok(_) => obs.label("ok"),
        Err((_, crate::real::RealErr::StateRead(_))) => {
            obs.label("state-error");
            obs.nontrivial();
        }
        Err(_) => obs.label("op-error"),
    }
    Ok(())
}

fn values() -> impl Strategy<Value = Vec<Vec<i64>>> {
    prop_oneof![
        3 => proptest::collection::vec(proptest::collection::vec(gen::word(), 0..5), 0..6),
        1 => proptest::collection::vec(Just(vec![]), 0..6),
        1 => (1usize..5, 1usize..4).prop_map(|(n, l)| vec![vec![9; l]; n]),
    ]
}

fn sr_case() -> impl Strategy<Value = SrCase> {
    let ops = prop_oneof![Just(KRNG), Just(KREX), Just(PKRNG), Just(PKREX)];
    (
        ops,
        proptest::collection::vec(gen::word(), 0..4),
        gen::bytes32(),
        prop_oneof![8 => proptest::collection::vec(prop_oneof![gen::word(), -2i64..3], 0..7), 1 => prop_oneof![Just(4085usize), Just(1000), Just(1001), Just(1024), Just(2048), 7usize..4086].prop_map(|n| (0..n as i64).collect::<Vec<i64>>())],
        proptest::option::weighted(0.1, gen::index_like(6)),
        prop_oneof![4 => 0i64..6, 2 => gen::boundary_word(), 1 => gen::word()],
        (values(), values(), 0usize..3, any::<bool>(), 0i64..3),
    )
        .prop_flat_map(|(op, below, ext, key, klen_o, count, (pre_vals, post_vals, mode, exact_fit, slack))| {
            // memory sized relative to what the view will return (exactly fitting, one short, roomy)
            let is_post = matches!(op, PKRNG | PKREX);
            let vals = if is_post { post_vals.clone() } else { pre_vals.clone() };
            let need: usize = 2 * vals.len() + vals.iter().map(|v| v.len()).sum::<usize>();
            let mem_len = prop_oneof![
                3 => Just(need + 4),
                2 => Just(need),
                2 => Just(need.saturating_sub(1)),
                1 => Just(0usize),
                1 => Just(10240usize),
                2 => 0usize..40,
            ];
            (Just((op, below, ext, key, klen_o, count, pre_vals, post_vals, mode, exact_fit, slack)), mem_len)
        })
        .prop_flat_map(|((op, below, ext, key, klen_o, count, pre_vals, post_vals, mode, _exact, slack), mem_len)| {
            let addr = prop_oneof![3 => Just(0i64), 2 => Just(slack), 2 => gen::index_like(mem_len), 1 => Just(4i64)];
            (Just((op, below, ext, key, klen_o, count, pre_vals, post_vals, mode, mem_len)), addr, any::<i64>())
        })
        .prop_map(|((op, below, ext, key, klen_o, count, pre_vals, post_vals, mode, mem_len), addr, seed)| {
            let own = [0x77u8; 32];
            let klen = klen_o.unwrap_or(key.len() as i64);
            let state = match mode {
                // scripted: answers regardless of the request (fewer/more values than requested, ragged, empty)
                0 | 1 => StateSpec {
                    pre: ViewSpec::Scripted(Ok(pre_vals)),
                    post: ViewSpec::Scripted(Ok(post_vals)),
                },
                _ => {
                    // map-backed with distinct contents per view and per contract; sometimes an error
                    let kv = |t: i64| -> Vec<(Vec<i64>, Vec<i64>)> {
                        let mut k = key.clone();
                        let mut out = vec![];
                        for i in 0..4 {
                            out.push((k.clone(), vec![t + i; (i as usize % 3) + 1]));
                            match crate::doubles::next_key(k.clone()) {
                                Some(n) => k = n,
                                None => break,
                            }
                        }
                        out
                    };
                    let fail = if seed % 5 == 0 { vec![if seed % 2 == 0 { own } else { ext }] } else { vec![] };
                    StateSpec {
                        pre: ViewSpec::Map(MapSpec {
                            contracts: vec![(own, kv(100)), (ext, kv(200))],
                            fail_contracts: fail.clone(),
                        }),
                        post: ViewSpec::Map(MapSpec {
                            contracts: vec![(own, kv(300)), (ext, kv(400))],
                            fail_contracts: fail,
                        }),
                    }
                }
            };
            let state = if seed % 11 == 0 {
                StateSpec {
                    pre: ViewSpec::Scripted(Err(format!("pre failure {seed}"))),
                    post: ViewSpec::Scripted(Err(format!("post failure {seed}"))),
                }
            } else {
                state
            };
            SrCase {
                op,
                below,
                ext,
                key,
                klen,
                count,
                addr,
                memory: (0..mem_len as i64).map(|i| seed.wrapping_add(i)).collect(),
                own_contract: own,
                state,
            }
        })
}

/// One `Vm` value (and therefore one lazily filled cache) used for two executions with different solution
/// indices: each read must ask for the contract of the solution it is executed for.
#[derive(Clone, Debug, Hash, Serialize, Deserialize)]
pub struct ReuseCase {
    pub post: bool,
    pub key: Vec<i64>,
    pub first: usize,
    pub second: usize,
    pub share_cache_only: bool,
}

fn oracle_reuse(rc: &ReuseCase, obs: &mut Obs) -> Result<(), Violation> {
    use essential_vm::{Access, GasLimit, Vm};
    let sols: Vec<MSolution> = (0..3u8)
        .map(|i| MSolution {
            contract: [0x10 + i; 32],
            predicate: [0x20 + i; 32],
            data: vec![],
            mutations: vec![],
        })
        .collect();
    let real = Arc::new(crate::real::to_real_solutions(&sols));
    let op = if rc.post { PKRNG } else { KRNG };
    let mut prog: Vec<MOp> = vec![PUSH(8), ALOC, POP];
    prog.extend(rc.key.iter().map(|w| PUSH(*w)));
    prog.extend([PUSH(rc.key.len() as i64), PUSH(1), PUSH(0), op]);
    let ops = crate::real::to_real_ops(&prog);
    let log = Arc::new(Log::default());
    let views = crate::doubles::Views::from_spec(&StateSpec::default(), Some(log.clone()));
    let mut vm = Vm::default();
    let mut expected = Vec::new();
    for ix in [rc.first, rc.second] {
        if rc.share_cache_only {
            // a fresh machine that shares only the cache with the previous one
            let cache = vm.cache.clone();
            vm = Vm { cache, ..Default::default() };
        } else {
            vm.pc = 0;
            vm.stack = Default::default();
            vm.memory = Default::default();
        }
        let r = crate::engine::no_panic("Vm::exec_ops", || {
            vm.exec_ops(&ops, Access::new(real.clone(), ix as u16), &views, &|_: &essential_asm::Op| 1u64, GasLimit::UNLIMITED)
        })?;
        ensure!(r.is_ok(), "sr:reuse-failed", "read failed on a reused machine: {:?}", r.err().map(|e| e.to_string()));
        expected.push(sols[ix].contract);
    }
    let reqs = log.reqs.lock().unwrap().clone();
    ensure!(reqs.len() == 2, "sr:request-count", "expected two requests, saw {}", reqs.len());
    for (i, r) in reqs.iter().enumerate() {
        ensure!(
            r.contract == expected[i] && r.post == rc.post && r.key == rc.key,
            "sr:wrong-contract",
            "execution {i} (solution {}): asked contract {:02x}.. post={} key {:?}, expected contract {:02x}..",
            [rc.first, rc.second][i],
            r.contract[0],
            r.post,
            r.key,
            expected[i][0]
        );
    }
    obs.nontrivial_if(rc.first != rc.second);
    Ok(())
}

pub fn property() -> Property {
    Property {
        id: "C11",
        rule: "generated single state-read executions: op in {KeyRange, KeyRangeExtern, PostKeyRange, PostKeyRangeExtern} x key length 0..6 (and long keys: 1000, 1001, 1024, 2048, 4085, random up to 4085 words) x key-length operand (correct or index-like) x count (0..5, boundary words, random) x memory length (exact fit, one short, roomy, 0, 10240, small) x address (0, small, index-like) x answers (scripted lists: ragged / empty values / fewer or more than requested; map-backed views with different contents per view and contract; scripted errors; failing contracts). Oracle: exactly one recorded request with the right view, contract (solved predicate's or the 4 popped words), key and count; memory and stack equal RefVm's independently computed layout (pairs then values, everything else unchanged, length unchanged); misfit/bad operands => error and no request; state error payload unchanged. Non-trivial = at least one value written and (ragged lengths, non-zero address or count != number returned), or a state error.",
        assumptions: vec!["RefVm implements the documented [addr,len]-pairs-then-values layout independently"],
        health: vec![("sr.request_and_layout", "values-written", 150), ("sr.request_and_layout", "state-error", 30)],
        subs: vec![
            prop_sub(
                "sr.machine_reuse",
                4_000,
                40_000,
                |_| (any::<bool>(), proptest::collection::vec(-2i64..3, 0..3), 0usize..3, 0usize..3, any::<bool>()).prop_map(|(post, key, first, second, share_cache_only)| ReuseCase { post, key, first, second, share_cache_only }),
                oracle_reuse,
            ),
            prop_sub("sr.request_and_layout", 80_000, 1_500_000, |_| sr_case(), oracle),
        ],
    }
}
