//! C10 — Compute forks and joins child programs like a sequential loop over indices.

use crate::engine::{prop_sub, Obs, Property, Tier, Violation};
use crate::gen::{self, programs};
use crate::model::ops::MOp::{self, *};
use crate::model::vm::RSlot;
use crate::props::c08::program_case;
use crate::real::{exec_agrees_with_lockstep, lockstep, ExecCase, LockCfg};
use proptest::prelude::*;

fn oracle_with(cap: i64, budget: u64) -> impl Fn(&ExecCase, &mut Obs) -> Result<(), Violation> {
    move |case, obs| {
        let cfg = LockCfg {
            budget,
            breadth_cap: cap,
            record_ops: false,
        };
        let sum = lockstep(case, &cfg, obs)?;
        exec_agrees_with_lockstep(case, &sum)?;
        // the same again with all children on one worker thread and spread over two (how children are grouped
        // onto threads must not matter)
        for pool in crate::props::c02::pools().iter().take(2) {
            pool.install(|| exec_agrees_with_lockstep(case, &sum))?;
        }
        let mut nontrivial = false;
        for c in &sum.compute_log {
            if c.ok {
                obs.label("compute-ok");
            } else {
                obs.label("compute-failed");
            }
            if c.breadth >= 2 && (c.distinct_end_pcs >= 2 || c.distinct_mem_sizes >= 2 || (c.failing_children > 0 && (c.failing_children as i64) < c.breadth)) {
                nontrivial = true;
                obs.label("children-differ");
            }
            if c.breadth >= 100 {
                obs.label("breadth>=100");
            }
        }
        // error cases without any child (bad breadth) are interesting too
        if sum.compute_log.is_empty() && sum.failed_at.map(|at| case.prog.get(at) == Some(&COM)).unwrap_or(false) {
            obs.label("compute-rejected");
            nontrivial = true;
        }
        obs.nontrivial_if(nontrivial);
        Ok(())
    }
}

fn parent_prefix() -> impl Strategy<Value = (Vec<i64>, Vec<i64>, Vec<RSlot>)> {
    (
        prop_oneof![8 => proptest::collection::vec(gen::word(), 0..5), 1 => Just(vec![3; 4094]), 1 => Just(vec![3; 4095])],
        prop_oneof![
            4 => proptest::collection::vec(gen::word(), 48..64),
            1 => Just(vec![]),
            1 => (10200usize..=10240).prop_map(|n| (0..n as i64).collect::<Vec<_>>()),
        ],
        prop_oneof![
            3 => Just(vec![]),
            1 => (1i64..4, 0i64..3).prop_map(|(l, c)| vec![RSlot::Up { counter: c.min(l - 1), limit: l, start: 0 }]),
            1 => (0i64..4).prop_map(|c| vec![RSlot::Down { counter: c, start: 1 }]),
        ],
    )
}

pub fn children_case() -> impl Strategy<Value = ExecCase> {
    (
        parent_prefix(),
        programs::compute_block(programs::StructCfg::default()),
        proptest::collection::vec((100i64..999).prop_map(PUSH), 0..3),
        any::<bool>(),
        // a second Compute in the same execution, after the parent changed some of its memory
        proptest::option::weighted(0.3, (programs::compute_block(programs::StructCfg::default()), proptest::collection::vec((0i64..48, 100i64..999), 0..4))),
    )
        .prop_map(|((stack, memory, repeat), block, tail, use_repc, second)| {
            let mut prog = block;
            if use_repc && !repeat.is_empty() {
                // children read the inherited repeat counter (kept in their memory) at the start and at the end of the
                // body: a child's view of the parent's loop does not depend on what its siblings did to theirs
                let read = [REPC, PUSH(1), ALOC, STO];
                if let Some(end) = prog.iter().rposition(|o| *o == COME) {
                    for (k, o) in read.iter().enumerate() {
                        prog.insert(end + k, *o);
                    }
                }
                for (k, o) in read.iter().enumerate() {
                    prog.insert(2 + k, *o);
                }
            }
            if let Some((block2, stores)) = second {
                if memory.len() >= 48 {
                    for (cell, v) in stores {
                        prog.extend([PUSH(v), PUSH(cell), STO]);
                    }
                }
                prog.extend(block2);
            }
            prog.extend(tail);
            let mut c = program_case(prog);
            c.init.stack = stack;
            c.init.memory = memory;
            c.init.repeat = repeat;
            c
        })
}

/// Total child memory around the limit; breadth <= 0; nested compute; one failing child.
pub fn error_case() -> impl Strategy<Value = ExecCase> {
    let mem_boundary = (1i64..9, 0i64..4, -2i64..3).prop_map(|(b, k, delta)| {
        // child i allocates (i mod 3) + k words and writes i into the first (if any)
        let total: i64 = (0..b).map(|i| (i % 3) + k).sum();
        let parent_len = (10240 - total + delta).clamp(0, 10240);
        let prog = vec![PUSH(b), COM, DUP, PUSH(3), MOD, PUSH(k), ADD, ALOC, POP, COME, PUSH(5)];
        let mut c = program_case(prog);
        c.init.memory = (0..parent_len).collect();
        c
    });
    let bad_breadth = prop_oneof![Just(i64::MIN), Just(-1i64), Just(0i64), Just(1i64)].prop_map(|b| program_case(vec![PUSH(7), PUSH(b), COM, PUSH(1), ALOC, POP, COME, PUSH(9)]));
    let no_breadth = Just(program_case(vec![COM, COME]));
    let nested = (1i64..4, 1i64..3).prop_map(|(b, inner)| program_case(vec![PUSH(b), COM, PUSH(inner), COM, COME, COME]));
    let one_fails = (2i64..9, 0i64..9, any::<bool>()).prop_map(|(b, bad, panic)| {
        // child `bad` fails (PanicIf or pop on an empty... ) ; if bad >= b nobody fails
        let fail: Vec<MOp> = if panic { vec![DUP, PUSH(bad), EQ, PNCIF] } else { vec![DUP, PUSH(bad), EQ, PUSH(-1), MUL, PUSH(1), ADD, PUSH(0), SWAP, DIV, POP] };
        let mut prog = vec![PUSH(b), COM];
        prog.extend(fail);
        prog.extend([PUSH(1), ALOC, STO_I()]);
        prog.extend([COME, PUSH(4)]);
        program_case(fix_sto(prog))
    });
    let end_positions = (2i64..7, 1i64..4).prop_map(|(b, k)| {
        // children with i mod k == 0 end at the first ComputeEnd, the others skip it and end at the second or fall off the end
        let prog = vec![
            PUSH(b), COM,
            DUP, PUSH(k), MOD, PUSH(0), EQ, NOT, PUSH(2), SWAP, JMPIF, // skip the first COME unless i mod k == 0
            COME,
            PUSH(1), ALOC, POP,
            DUP, PUSH(2), MOD, PUSH(2), SWAP, JMPIF, // odd i skip the second COME and run off the end
            COME,
            PUSH(2), ALOC, POP,
        ];
        program_case(prog)
    });
    let halting = (2i64..6, 0i64..6).prop_map(|(b, h)| program_case(vec![PUSH(b), COM, PUSH(1), ALOC, POP, DUP, PUSH(h), EQ, HLTIF, PUSH(1), ALOC, POP, COME, PUSH(8), PUSH(9)]));
    prop_oneof![3 => mem_boundary, 1 => bad_breadth, 1 => no_breadth, 1 => nested, 2 => one_fails, 2 => end_positions, 2 => halting]
}

// tiny helper ops for `one_fails` (store the child index into the fresh word)
#[allow(non_snake_case)]
fn STO_I() -> MOp {
    STO
}
fn fix_sto(prog: Vec<MOp>) -> Vec<MOp> {
    // [.., i] PUSH 1 ALOC -> [.., i, a] ; we want mem[a] = i and keep [.., i]: DUPF(1) SWAP STO
    let mut out = Vec::new();
    let mut i = 0;
    while i < prog.len() {
        if prog[i] == ALOC && prog.get(i + 1) == Some(&STO) {
            out.extend([ALOC, PUSH(1), DUPF, SWAP, STO]);
            i += 2;
        } else {
            out.push(prog[i]);
            i += 1;
        }
    }
    out
}

fn large_case(t: Tier) -> impl Strategy<Value = ExecCase> {
    let breadths: Vec<i64> = t.pick(vec![64, 100, 256], vec![256, 1000, 4096, 5000]);
    (0..breadths.len(), 0i64..3, any::<bool>()).prop_map(move |(bi, k, store)| {
        let b = breadths[bi];
        let mut prog = vec![PUSH(b), COM];
        if store {
            prog.extend([DUP, PUSH(2), MOD, PUSH(k), ADD, ALOC, POP]);
        }
        prog.extend([COME, PUSH(1)]);
        program_case(prog)
    })
}

pub fn property() -> Property {
    Property {
        id: "C10",
        rule: "generated Compute programs: parent stacks (incl. 4094/4095 words), parent memories (empty, 48..64 words, 10200..10240 words), active repeat state; breadths {MIN,-1,0,1,2..20} (thorough up to 5000); child bodies with index-dependent jumps, allocations of i mod k words, parent-memory loads in and out of range, Halt/HaltIf for some i, early ComputeEnd, running off the end, one failing child, nested Compute, total child memory at limit-2..limit+2. The real VM (parallel) is compared with RefVm's sequential loop after the Compute step (stack, memory = old ++ children in index order, pc = furthest child position, gas) and with exec_ops. Non-trivial = breadth >= 2 and the children differ in end position, memory size or outcome, or the Compute itself is rejected.",
        assumptions: vec![
            "when a child ends behind a position it had visited (backward jump before the end) the resume position is unspecified and the case is skipped",
        ],
        health: vec![("compute.children", "compute-ok", 300), ("compute.children", "children-differ", 150)],
        subs: vec![
            prop_sub("compute.children", 30_000, 500_000, |_| children_case(), oracle_with(64, 30_000)),
            prop_sub("compute.errors", 24_000, 300_000, |_| error_case(), oracle_with(64, 30_000)),
            prop_sub("compute.large_breadth", 180, 1_440, large_case, oracle_with(5000, 200_000)).shards(4),
        ],
    }
}
