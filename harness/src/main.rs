use ebv::engine::{supervisor, Tier};
use std::path::Path;

fn usage() -> i32 {
    eprintln!("usage: ebv run <Cxx> <quick|thorough> | ebv replay <file> [--quiet] | ebv list");
    2
}

fn main() {
    let args: Vec<String> = std::env::args().collect();
    let code = match args.get(1).map(|s| s.as_str()) {
        Some("run") => {
            let (Some(id), Some(tier)) = (args.get(2), args.get(3).and_then(|t| Tier::parse(t))) else {
                std::process::exit(usage());
            };
            match ebv::props::property(id) {
                Some(p) => supervisor::supervise(&p, tier),
                None => {
                    eprintln!("unknown property {id}");
                    2
                }
            }
        }
        Some("worker") => {
            let (Some(id), Some(tier)) = (args.get(2), args.get(3).and_then(|t| Tier::parse(t))) else {
                std::process::exit(usage());
            };
            let only_both = args.iter().any(|a| a == "--only-both");
            match ebv::props::property(id) {
                Some(p) => supervisor::worker(
                    &p,
                    tier,
                    Path::new(&args[4]),
                    Path::new(&args[5]),
                    Path::new(&args[6]),
                    only_both,
                ),
                None => 2,
            }
        }
        Some("replay") => {
            let Some(f) = args.get(2) else { std::process::exit(usage()) };
            let quiet = args.iter().any(|a| a == "--quiet");
            supervisor::replay(Path::new(f), quiet)
        }
        Some("probe") => ebv::props::run_probe(&args[2..]),
        Some("gen-seeds") => ebv::fuzzing::gen_seeds(Path::new(args.get(2).map(|s| s.as_str()).unwrap_or("../fuzz/seeds"))),
        Some("fuzz-corpus") => {
            if args.len() < 6 {
                std::process::exit(usage());
            }
            supervisor::fuzz_corpus(&args[2], &args[3], Path::new(&args[4]), Path::new(&args[5]))
        }
        Some("list") => {
            for id in ebv::props::ids() {
                if let Some(p) = ebv::props::property(id) {
                    println!("{} {}", p.id, p.subs.iter().map(|s| s.name).collect::<Vec<_>>().join(" "));
                }
            }
            0
        }
        _ => usage(),
    };
    std::process::exit(code);
}
