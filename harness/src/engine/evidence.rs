//! Evidence file writer (DESIGN §2.7).

use super::{Property, Stats, Tier, WorkerReport};
use serde_json::json;
use std::collections::{BTreeMap, HashSet};

pub fn evidence_path(id: &str) -> std::path::PathBuf {
    std::path::Path::new(env!("CARGO_MANIFEST_DIR")).join(format!("../evidence/{id}.json"))
}

#[allow(clippy::too_many_arguments)]
pub fn write(
    prop: &Property,
    tier: Tier,
    seed: u64,
    reports: &[WorkerReport],
    extra: serde_json::Value,
    wall_s: f64,
    violations: usize,
    known_lines: &[String],
) -> std::io::Result<()> {
    let mut evaluations = 0u64;
    let mut per_sub: BTreeMap<String, serde_json::Value> = BTreeMap::new();
    let mut distinct_all: HashSet<(String, u64)> = HashSet::new();
    let mut samples: Vec<serde_json::Value> = Vec::new();
    let mut labels: BTreeMap<String, u64> = BTreeMap::new();
    let mut skipped = 0u64;
    let mut known_excluded = 0u64;
    let mut exhaustive_subs = Vec::new();
    let mut profiles = Vec::new();
    for r in reports {
        profiles.push(r.profile.clone());
        for (name, st) in &r.per_sub {
            evaluations += st.evaluations;
            skipped += st.skipped;
            known_excluded += st.known_excluded;
            for (l, n) in &st.labels {
                *labels.entry(format!("{name}:{l}")).or_default() += n;
            }
            for h in r.distinct_hashes.get(name).into_iter().flatten() {
                distinct_all.insert((name.clone(), *h));
            }
            if st.exhaustive && !exhaustive_subs.contains(name) {
                exhaustive_subs.push(name.clone());
            }
            let e = per_sub.entry(format!("{name}@{}", r.profile)).or_insert(json!({}));
            *e = sub_json(st);
            for s in &st.samples {
                if samples.len() < 12 && samples.iter().filter(|x| x["subcheck"] == json!(name)).count() < 2 {
                    samples.push(json!({"subcheck": name, "case": s}));
                }
            }
        }
    }
    let all_exhaustive = !per_sub.is_empty()
        && reports.iter().all(|r| r.per_sub.values().all(|s| s.exhaustive));
    let mut coverage = json!({
        "evaluations": evaluations,
        "distinct_nontrivial": distinct_all.len(),
        "rule": prop.rule,
        "samples": samples,
        "exhaustive": all_exhaustive,
        "exhaustive_subchecks": exhaustive_subs,
        "per_subcheck": per_sub,
        "labels": labels,
        "skipped_unspecified": skipped,
        "known_finding_cases_excluded": known_excluded,
        "profiles": profiles,
        "known_findings_reported": known_lines,
    });
    if let (Some(c), Some(e)) = (coverage.as_object_mut(), extra.as_object()) {
        for (k, v) in e {
            c.insert(k.clone(), v.clone());
        }
    }
    let doc = json!({
        "property_id": prop.id,
        "tier": tier.name(),
        "seed": seed,
        "level": "exploration",
        "coverage": coverage,
        "assumptions": prop.assumptions,
        "wall_s": wall_s,
        "violations": violations,
    });
    let path = evidence_path(prop.id);
    if let Some(d) = path.parent() {
        std::fs::create_dir_all(d)?;
    }
    std::fs::write(path, serde_json::to_string_pretty(&doc).unwrap())
}

fn sub_json(st: &Stats) -> serde_json::Value {
    json!({
        "cases": st.cases,
        "evaluations": st.evaluations,
        "nontrivial": st.nontrivial,
        "distinct_nontrivial": st.distinct_count,
        "skipped": st.skipped,
        "skip_reasons": st.skip_reasons,
        "known_excluded": st.known_excluded,
        "exhaustive": st.exhaustive,
        "labels": st.labels,
    })
}
