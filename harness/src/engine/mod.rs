//! Engine: sub-check abstraction, proptest / enumerator drivers, sharding, statistics.
//!
//! A sub-check = generator x oracle x classifier (DESIGN §1). The oracle returns
//! `Result<(), Violation>` and reports labels / non-triviality through `Obs`.

pub mod evidence;
pub mod known;
pub mod supervisor;

use proptest::strategy::{BoxedStrategy, Strategy};
use proptest::test_runner::{Config, RngSeed, TestCaseError, TestError, TestRunner};
use serde::{de::DeserializeOwned, Deserialize, Serialize};
use std::cell::RefCell;
use std::collections::{BTreeMap, HashSet};
use std::fmt::Debug;
use std::hash::{Hash, Hasher};
use std::panic::{catch_unwind, AssertUnwindSafe};
use std::sync::atomic::{AtomicU64, Ordering};
use std::sync::{Arc, Mutex};

#[derive(Clone, Copy, Debug, PartialEq, Eq, Serialize, Deserialize)]
pub enum Tier {
    Quick,
    Thorough,
}

impl Tier {
    pub fn name(&self) -> &'static str {
        match self {
            Tier::Quick => "quick",
            Tier::Thorough => "thorough",
        }
    }
    pub fn parse(s: &str) -> Option<Tier> {
        match s {
            "quick" => Some(Tier::Quick),
            "thorough" => Some(Tier::Thorough),
            _ => None,
        }
    }
    /// Pick by tier.
    pub fn pick<T>(&self, quick: T, thorough: T) -> T {
        match self {
            Tier::Quick => quick,
            Tier::Thorough => thorough,
        }
    }
}

/// Which arithmetic configuration this binary was built in.
pub fn profile_name() -> &'static str {
    if cfg!(debug_assertions) {
        "checked"
    } else {
        "release"
    }
}

#[derive(Clone, Debug, Serialize, Deserialize)]
pub struct Violation {
    /// Stable class of the failure (used for known-finding matching and de-duplication).
    pub signature: String,
    pub message: String,
}

impl Violation {
    pub fn new(signature: impl Into<String>, message: impl Into<String>) -> Self {
        Violation {
            signature: signature.into(),
            message: message.into(),
        }
    }
}

#[macro_export]
macro_rules! viol {
    ($sig:expr, $($arg:tt)*) => {
        $crate::engine::Violation::new($sig, format!($($arg)*))
    };
}

#[macro_export]
macro_rules! ensure {
    ($cond:expr, $sig:expr, $($arg:tt)*) => {
        if !($cond) {
            return Err($crate::engine::Violation::new($sig, format!($($arg)*)));
        }
    };
}

/// Observation sink handed to oracles.
#[derive(Default)]
pub struct Obs {
    pub nontrivial: bool,
    pub labels: Vec<&'static str>,
    pub skipped: Option<&'static str>,
    /// Extra work units executed inside this case (e.g. runs per schedule), added to evaluations.
    pub extra_evals: u64,
}

impl Obs {
    pub fn label(&mut self, l: &'static str) {
        self.labels.push(l);
    }
    pub fn nontrivial(&mut self) {
        self.nontrivial = true;
    }
    pub fn nontrivial_if(&mut self, c: bool) {
        if c {
            self.nontrivial = true;
        }
    }
    pub fn skip(&mut self, why: &'static str) {
        self.skipped = Some(why);
    }
}

#[derive(Default, Clone, Serialize, Deserialize)]
pub struct Stats {
    /// Oracle invocations (generated cases).
    #[serde(default)]
    pub cases: u64,
    pub evaluations: u64,
    pub nontrivial: u64,
    pub skipped: u64,
    pub known_excluded: u64,
    pub labels: BTreeMap<String, u64>,
    pub skip_reasons: BTreeMap<String, u64>,
    #[serde(skip)]
    pub distinct: HashSet<u64>,
    pub distinct_count: u64,
    pub samples: Vec<String>,
    pub exhaustive: bool,
}

impl Stats {
    pub fn merge(&mut self, o: Stats) {
        self.cases += o.cases;
        self.evaluations += o.evaluations;
        self.nontrivial += o.nontrivial;
        self.skipped += o.skipped;
        self.known_excluded += o.known_excluded;
        for (k, v) in o.labels {
            *self.labels.entry(k).or_default() += v;
        }
        for (k, v) in o.skip_reasons {
            *self.skip_reasons.entry(k).or_default() += v;
        }
        self.exhaustive |= o.exhaustive;
        self.distinct.extend(o.distinct);
        self.distinct_count = self.distinct.len() as u64;
        for s in o.samples {
            if self.samples.len() < 3 {
                self.samples.push(s);
            }
        }
    }
}

#[derive(Clone, Debug, Serialize, Deserialize)]
pub struct Failure {
    pub property: String,
    pub subcheck: String,
    pub profile: String,
    pub case: serde_json::Value,
    pub violation: Violation,
    #[serde(default)]
    pub shrunk: bool,
}

pub fn case_hash<C: Hash>(c: &C) -> u64 {
    // DefaultHasher::new() uses fixed keys: deterministic across runs.
    #[allow(deprecated)]
    let mut h = std::hash::SipHasher::new_with_keys(0x6562_7631, 0x7665_7269);
    c.hash(&mut h);
    h.finish()
}

fn render_sample<C: Debug>(c: &C) -> String {
    let mut s = format!("{:?}", c);
    if s.len() > 700 {
        let mut cut = 700;
        while !s.is_char_boundary(cut) {
            cut -= 1;
        }
        s.truncate(cut);
        s.push_str("…");
    }
    s
}

thread_local! {
    static LAST_PANIC: RefCell<Option<String>> = const { RefCell::new(None) };
}

/// Install a silent panic hook that records message + location for the current thread.
pub fn install_panic_hook() {
    std::panic::set_hook(Box::new(|info| {
        let msg = if let Some(s) = info.payload().downcast_ref::<&str>() {
            s.to_string()
        } else if let Some(s) = info.payload().downcast_ref::<String>() {
            s.clone()
        } else {
            "<non-string panic>".to_string()
        };
        let loc = info
            .location()
            .map(|l| format!("{}:{}", l.file(), l.line()))
            .unwrap_or_default();
        LAST_PANIC.with(|p| *p.borrow_mut() = Some(format!("{msg} @ {loc}")));
    }));
}

/// Run `f`, converting a panic into a `Violation` with signature `panic:<message class>`.
pub fn no_panic<T>(what: &str, f: impl FnOnce() -> T) -> Result<T, Violation> {
    match catch_unwind(AssertUnwindSafe(f)) {
        Ok(v) => Ok(v),
        Err(_) => {
            let msg = LAST_PANIC
                .with(|p| p.borrow_mut().take())
                .unwrap_or_else(|| "<panic on another thread or no message>".into());
            // Signature: message without numbers (location free-ish).
            let class: String = msg
                .split(" @ ")
                .next()
                .unwrap_or("")
                .chars()
                .map(|c| if c.is_ascii_digit() { '#' } else { c })
                .take(80)
                .collect();
            Err(Violation::new(
                format!("panic:{class}"),
                format!("{what} panicked: {msg}"),
            ))
        }
    }
}

/// Breadcrumb support: the worker writes the case about to be executed so that the supervisor
/// can recover it if the process dies from a signal.
pub struct Breadcrumb {
    pub dir: Option<std::path::PathBuf>,
}

thread_local! {
    static CRUMB_FILE: RefCell<Option<std::fs::File>> = const { RefCell::new(None) };
}
static CRUMB_SEQ: AtomicU64 = AtomicU64::new(0);

pub fn write_breadcrumb(dir: &std::path::Path, property: &str, sub: &str, case: &serde_json::Value) {
    use std::io::{Seek, SeekFrom, Write};
    CRUMB_FILE.with(|f| {
        let mut f = f.borrow_mut();
        if f.is_none() {
            let n = CRUMB_SEQ.fetch_add(1, Ordering::Relaxed);
            let path = dir.join(format!("crumb-{n}.json"));
            *f = std::fs::File::create(path).ok();
        }
        if let Some(file) = f.as_mut() {
            let body = serde_json::json!({"property": property, "subcheck": sub, "profile": profile_name(), "case": case});
            let s = body.to_string();
            let _ = file.seek(SeekFrom::Start(0));
            let _ = file.write_all(s.as_bytes());
            let _ = file.set_len(s.len() as u64);
        }
    });
}

/// Progress counter read by the heartbeat thread.
pub static PROGRESS: AtomicU64 = AtomicU64::new(0);

pub struct RunCfg {
    pub property: &'static str,
    pub tier: Tier,
    pub seed: u64,
    pub crumb_dir: Option<std::path::PathBuf>,
    pub strict: bool,
    /// Write breadcrumbs for every sub-check (second attempt after an unexplained process death).
    pub force_crumbs: bool,
}

pub trait SubRunner: Send + Sync {
    /// Run one shard. Returns stats and at most one (shrunk) failure.
    fn run_shard(&self, cfg: &RunCfg, sub: &Sub, shard: u64, nshards: u64) -> (Stats, Option<Failure>);
    /// Re-run the oracle on a serialised case.
    fn replay(&self, case: &serde_json::Value) -> Result<Result<(), Violation>, String>;
}

pub struct Sub {
    pub name: &'static str,
    /// Total number of cases over all shards (for enumerators: ignored).
    pub quick_cases: u64,
    pub thorough_cases: u64,
    /// Run shards one after another (the sub-check itself uses many threads).
    pub serial: bool,
    /// Cases may abort the process: write breadcrumbs.
    pub may_abort: bool,
    /// Also run in the overflow-unchecked `release` binary in the quick tier.
    pub both_profiles_quick: bool,
    pub shards: u64,
    pub runner: Box<dyn SubRunner>,
}

impl Sub {
    pub fn cases(&self, tier: Tier) -> u64 {
        let n = tier.pick(self.quick_cases, self.thorough_cases);
        // Development aid (never set by the registered commands): run a percentage of the cases, e.g. to measure the
        // generator's label distribution of the thorough tier quickly.
        match std::env::var("EBV_DEV_SCALE_PCT").ok().and_then(|v| v.parse::<u64>().ok()) {
            Some(pct) => (n * pct / 100).max(16),
            None => n,
        }
    }
}

pub const DEFAULT_SHARDS: u64 = 16;

pub fn mix_seed(seed: u64, property: &str, sub: &str, shard: u64) -> u64 {
    #[allow(deprecated)]
    let mut h = std::hash::SipHasher::new_with_keys(seed, 0x5eed);
    property.hash(&mut h);
    sub.hash(&mut h);
    shard.hash(&mut h);
    h.finish()
}

type Oracle<C> = Arc<dyn Fn(&C, &mut Obs) -> Result<(), Violation> + Send + Sync>;

/// Execute the oracle under catch_unwind and record statistics.
fn eval_case<C: Debug + Hash + Serialize>(
    cfg: &RunCfg,
    sub: &Sub,
    oracle: &Oracle<C>,
    case: &C,
    stats: &mut Stats,
    counting: bool,
) -> Result<(), Violation> {
    if sub.may_abort || cfg.force_crumbs {
        if let Some(dir) = &cfg.crumb_dir {
            if let Ok(v) = serde_json::to_value(case) {
                write_breadcrumb(dir, cfg.property, sub.name, &v);
            }
        }
    }
    let mut obs = Obs::default();
    let res = match no_panic("oracle/code under test", || oracle(case, &mut obs)) {
        Ok(r) => r,
        Err(v) => Err(v),
    };
    PROGRESS.fetch_add(1, Ordering::Relaxed);
    let res = match res {
        Err(v) if !cfg.strict && known::is_known(cfg.property, &v) => {
            if counting {
                stats.known_excluded += 1;
            }
            known::note_hit(cfg.property, &v);
            Ok(())
        }
        r => r,
    };
    if counting {
        stats.cases += 1;
        stats.evaluations += 1 + obs.extra_evals;
        if let Some(why) = obs.skipped {
            stats.skipped += 1;
            *stats.skip_reasons.entry(why.to_string()).or_default() += 1;
        }
        for l in &obs.labels {
            *stats.labels.entry((*l).to_string()).or_default() += 1;
        }
        if obs.nontrivial && obs.skipped.is_none() {
            stats.nontrivial += 1;
            if stats.distinct.insert(case_hash(case)) && stats.samples.len() < 3 {
                stats.samples.push(render_sample(case));
            }
        }
    }
    res
}

/// Wall-time budget for shrinking one failure.
const SHRINK_BUDGET_S: u64 = 90;

pub struct PropSub<C> {
    pub strategy: Arc<dyn Fn(Tier) -> BoxedStrategy<C> + Send + Sync>,
    pub oracle: Oracle<C>,
}

impl<C> SubRunner for PropSub<C>
where
    C: Debug + Clone + Hash + Serialize + DeserializeOwned + Send + Sync + 'static,
{
    fn run_shard(&self, cfg: &RunCfg, sub: &Sub, shard: u64, nshards: u64) -> (Stats, Option<Failure>) {
        let total = sub.cases(cfg.tier);
        let cases = total / nshards + if shard < total % nshards { 1 } else { 0 };
        let mut stats = Stats::default();
        if cases == 0 {
            return (stats, None);
        }
        let seed = mix_seed(cfg.seed, cfg.property, sub.name, shard);
        let config = Config {
            cases: cases as u32,
            failure_persistence: None,
            rng_seed: RngSeed::Fixed(seed),
            max_shrink_iters: 4000,
            max_global_rejects: 1_000_000,
            ..Config::default()
        };
        let mut runner = TestRunner::new(config);
        let strategy = (self.strategy)(cfg.tier);
        let stats_cell = RefCell::new(&mut stats);
        let failed = std::cell::Cell::new(false);
        // Shrinking is bounded by wall time as well as by iterations: once the budget is used up every further candidate
        // is declared passing without being run, so proptest settles on the smallest case that really failed.
        let failed_at: std::cell::Cell<Option<std::time::Instant>> = std::cell::Cell::new(None);
        let result = runner.run(&strategy, |case| {
            let counting = !failed.get();
            if let Some(t0) = failed_at.get() {
                if t0.elapsed() > std::time::Duration::from_secs(SHRINK_BUDGET_S) {
                    return Ok(());
                }
            }
            let mut st = stats_cell.borrow_mut();
            match eval_case(cfg, sub, &self.oracle, &case, &mut st, counting) {
                Ok(()) => Ok(()),
                Err(v) => {
                    failed.set(true);
                    if failed_at.get().is_none() {
                        failed_at.set(Some(std::time::Instant::now()));
                    }
                    Err(TestCaseError::fail(
                        serde_json::to_string(&v).unwrap_or_else(|_| v.message.clone()),
                    ))
                }
            }
        });
        drop(stats_cell);
        let failure = match result {
            Ok(()) => None,
            Err(TestError::Fail(reason, case)) => {
                let violation: Violation = serde_json::from_str(reason.message())
                    .unwrap_or_else(|_| Violation::new("unknown", reason.message().to_string()));
                Some(Failure {
                    property: cfg.property.to_string(),
                    subcheck: sub.name.to_string(),
                    profile: profile_name().to_string(),
                    case: serde_json::to_value(&case).unwrap_or(serde_json::Value::Null),
                    violation,
                    shrunk: true,
                })
            }
            Err(TestError::Abort(reason)) => Some(Failure {
                property: cfg.property.to_string(),
                subcheck: sub.name.to_string(),
                profile: profile_name().to_string(),
                case: serde_json::Value::Null,
                violation: Violation::new("harness:abort", format!("proptest aborted: {reason}")),
                shrunk: false,
            }),
        };
        (stats, failure)
    }

    fn replay(&self, case: &serde_json::Value) -> Result<Result<(), Violation>, String> {
        let c: C = serde_json::from_value(case.clone()).map_err(|e| e.to_string())?;
        let mut obs = Obs::default();
        Ok(match no_panic("oracle/code under test", || (self.oracle)(&c, &mut obs)) {
            Ok(r) => r,
            Err(v) => Err(v),
        })
    }
}

pub type CaseIter<C> = Box<dyn Iterator<Item = C>>;

pub struct EnumSub<C> {
    /// Produces the full enumeration; the engine gives every shard the items with `i % nshards == shard`.
    pub items: Arc<dyn Fn(Tier) -> CaseIter<C> + Send + Sync>,
    pub oracle: Oracle<C>,
}

impl<C> SubRunner for EnumSub<C>
where
    C: Debug + Clone + Hash + Serialize + DeserializeOwned + Send + Sync + 'static,
{
    fn run_shard(&self, cfg: &RunCfg, sub: &Sub, shard: u64, nshards: u64) -> (Stats, Option<Failure>) {
        let mut stats = Stats {
            exhaustive: true,
            ..Stats::default()
        };
        for (i, case) in (self.items)(cfg.tier).enumerate() {
            if i as u64 % nshards != shard {
                continue;
            }
            if let Err(v) = eval_case(cfg, sub, &self.oracle, &case, &mut stats, true) {
                let f = Failure {
                    property: cfg.property.to_string(),
                    subcheck: sub.name.to_string(),
                    profile: profile_name().to_string(),
                    case: serde_json::to_value(&case).unwrap_or(serde_json::Value::Null),
                    violation: v,
                    shrunk: false,
                };
                return (stats, Some(f));
            }
        }
        (stats, None)
    }

    fn replay(&self, case: &serde_json::Value) -> Result<Result<(), Violation>, String> {
        let c: C = serde_json::from_value(case.clone()).map_err(|e| e.to_string())?;
        let mut obs = Obs::default();
        Ok(match no_panic("oracle/code under test", || (self.oracle)(&c, &mut obs)) {
            Ok(r) => r,
            Err(v) => Err(v),
        })
    }
}

/// Builder helpers.
pub fn prop_sub<C, S, FS, FO>(name: &'static str, quick: u64, thorough: u64, strategy: FS, oracle: FO) -> Sub
where
    C: Debug + Clone + Hash + Serialize + DeserializeOwned + Send + Sync + 'static,
    S: Strategy<Value = C> + 'static,
    FS: Fn(Tier) -> S + Send + Sync + 'static,
    FO: Fn(&C, &mut Obs) -> Result<(), Violation> + Send + Sync + 'static,
{
    Sub {
        name,
        quick_cases: quick,
        thorough_cases: thorough,
        serial: false,
        may_abort: false,
        both_profiles_quick: false,
        shards: DEFAULT_SHARDS,
        runner: Box::new(PropSub {
            strategy: Arc::new(move |t| strategy(t).boxed()),
            oracle: Arc::new(oracle),
        }),
    }
}

pub fn enum_sub<C, FI, FO>(name: &'static str, items: FI, oracle: FO) -> Sub
where
    C: Debug + Clone + Hash + Serialize + DeserializeOwned + Send + Sync + 'static,
    FI: Fn(Tier) -> CaseIter<C> + Send + Sync + 'static,
    FO: Fn(&C, &mut Obs) -> Result<(), Violation> + Send + Sync + 'static,
{
    Sub {
        name,
        quick_cases: 0,
        thorough_cases: 0,
        serial: false,
        may_abort: false,
        both_profiles_quick: false,
        shards: DEFAULT_SHARDS,
        runner: Box::new(EnumSub {
            items: Arc::new(items),
            oracle: Arc::new(oracle),
        }),
    }
}

impl Sub {
    pub fn serial(mut self) -> Self {
        self.serial = true;
        self
    }
    pub fn may_abort(mut self) -> Self {
        self.may_abort = true;
        self
    }
    pub fn both_profiles(mut self) -> Self {
        self.both_profiles_quick = true;
        self
    }
    pub fn shards(mut self, n: u64) -> Self {
        self.shards = n;
        self
    }
}

/// A property = a set of sub-checks plus its evidence text.
pub struct Property {
    pub id: &'static str,
    pub rule: &'static str,
    pub assumptions: Vec<&'static str>,
    pub subs: Vec<Sub>,
    /// Labels that must reach a minimum share of evaluations of a sub-check: (sub, label, min per-mille).
    pub health: Vec<(&'static str, &'static str, u64)>,
}

#[derive(Default, Serialize, Deserialize)]
pub struct WorkerReport {
    pub profile: String,
    pub per_sub: BTreeMap<String, Stats>,
    pub distinct_hashes: BTreeMap<String, Vec<u64>>,
    pub failures: Vec<Failure>,
    pub known_hits: Vec<String>,
    pub degenerate: Vec<String>,
}

/// Run all sub-checks of a property inside this process (the worker).
pub fn run_property_in_process(prop: &Property, cfg: &RunCfg, only_both: bool) -> WorkerReport {
    let mut report = WorkerReport {
        profile: profile_name().to_string(),
        ..Default::default()
    };
    let threads = std::thread::available_parallelism().map(|n| n.get()).unwrap_or(8).min(16);
    for sub in &prop.subs {
        if only_both && cfg.tier == Tier::Quick && !sub.both_profiles_quick {
            continue;
        }
        let nshards = sub.shards.max(1);
        let merged = Mutex::new(Stats::default());
        let failures = Mutex::new(Vec::<Failure>::new());
        let next = AtomicU64::new(0);
        let workers = if sub.serial { 1 } else { threads.min(nshards as usize) };
        std::thread::scope(|scope| {
            for _ in 0..workers {
                scope.spawn(|| loop {
                    let shard = next.fetch_add(1, Ordering::SeqCst);
                    if shard >= nshards {
                        break;
                    }
                    // Stop early once a failure is known for this sub-check.
                    if !failures.lock().unwrap().is_empty() {
                        break;
                    }
                    let (st, f) = sub.runner.run_shard(cfg, sub, shard, nshards);
                    merged.lock().unwrap().merge(st);
                    if let Some(f) = f {
                        failures.lock().unwrap().push(f);
                    }
                });
            }
        });
        let mut st = merged.into_inner().unwrap();
        st.distinct_count = st.distinct.len() as u64;
        // Generator health rules.
        for (s, label, min_permille) in &prop.health {
            if *s == sub.name && st.cases > 0 {
                let got = st.labels.get(*label).copied().unwrap_or(0);
                if got * 1000 < st.cases * *min_permille {
                    report.degenerate.push(format!(
                        "{}: label '{}' {} / {} cases, below {}‰",
                        sub.name, label, got, st.cases, min_permille
                    ));
                }
            }
        }
        let mut fs = failures.into_inner().unwrap();
        // Keep only the first failure per sub-check (others are usually the same root cause).
        fs.truncate(1);
        report.failures.extend(fs);
        report
            .distinct_hashes
            .insert(sub.name.to_string(), st.distinct.iter().copied().collect());
        report.per_sub.insert(sub.name.to_string(), st);
    }
    report.known_hits = known::hits();
    report
}
