//! Known findings (DESIGN §2.6). The file is read-only at run time.

use super::Violation;
use serde::Deserialize;
use std::sync::{Mutex, OnceLock};

#[derive(Clone, Debug, Deserialize)]
pub struct Entry {
    pub property: String,
    /// "known" or "fixed"
    pub status: String,
    /// Exact violation signature this entry identifies (the specific input class / call site).
    pub signature: String,
    pub what: String,
    #[serde(default)]
    pub commit: Option<String>,
}

pub fn path() -> std::path::PathBuf {
    std::path::Path::new(env!("CARGO_MANIFEST_DIR")).join("../known_findings.json")
}

pub fn entries() -> &'static Vec<Entry> {
    static E: OnceLock<Vec<Entry>> = OnceLock::new();
    E.get_or_init(|| {
        std::fs::read_to_string(path())
            .ok()
            .and_then(|s| serde_json::from_str::<Vec<Entry>>(&s).ok())
            .unwrap_or_default()
    })
}

static HITS: Mutex<Vec<String>> = Mutex::new(Vec::new());

pub fn is_known(property: &str, v: &Violation) -> bool {
    entries()
        .iter()
        .any(|e| e.status == "known" && e.property == property && e.signature == v.signature)
}

pub fn note_hit(property: &str, v: &Violation) {
    let key = format!("{}|{}", property, v.signature);
    let mut h = HITS.lock().unwrap();
    if !h.contains(&key) {
        h.push(key);
    }
}

pub fn hits() -> Vec<String> {
    HITS.lock().unwrap().clone()
}

pub fn what_for(key: &str) -> String {
    let mut it = key.splitn(2, '|');
    let (p, s) = (it.next().unwrap_or(""), it.next().unwrap_or(""));
    entries()
        .iter()
        .find(|e| e.property == p && e.signature == s)
        .map(|e| e.what.clone())
        .unwrap_or_else(|| s.to_string())
}
