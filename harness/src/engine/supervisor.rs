//! Supervisor / worker split (DESIGN §2.5): the check runs its cases in child processes so that
//! aborts (allocation failure, stack overflow) are observed as violations and hangs as "inconclusive".

use super::{evidence, known, Failure, Property, RunCfg, Tier, Violation, WorkerReport};
use std::io::Write;
use std::os::unix::process::{CommandExt, ExitStatusExt};
use std::path::{Path, PathBuf};
use std::process::{Command, Stdio};
use std::time::{Duration, Instant};

pub const WATCHDOG_SECS: u64 = 900;
pub const RLIMIT_AS_BYTES: u64 = 24 << 30;

pub fn seed_from_env() -> u64 {
    std::env::var("VERIF_SEED")
        .ok()
        .and_then(|s| s.trim().parse::<i128>().ok())
        .map(|v| v as u64)
        .unwrap_or(0)
}

fn harness_dir() -> PathBuf {
    PathBuf::from(env!("CARGO_MANIFEST_DIR"))
}

pub fn bin_for(profile: &str) -> PathBuf {
    harness_dir().join("target").join(profile).join("ebv")
}

fn set_rlimit(cmd: &mut Command, bytes: u64) {
    unsafe {
        cmd.pre_exec(move || {
            let lim = libc::rlimit {
                rlim_cur: bytes,
                rlim_max: bytes,
            };
            libc::setrlimit(libc::RLIMIT_AS, &lim);
            // No core dumps.
            let z = libc::rlimit { rlim_cur: 0, rlim_max: 0 };
            libc::setrlimit(libc::RLIMIT_CORE, &z);
            Ok(())
        });
    }
}

enum ChildEnd {
    Exit(i32),
    Signal(i32),
    Watchdog,
}

fn wait_with_watchdog(mut child: std::process::Child, hb: &Path, secs: u64) -> ChildEnd {
    let mut last = String::new();
    let mut last_change = Instant::now();
    loop {
        match child.try_wait() {
            Ok(Some(st)) => {
                return match (st.code(), st.signal()) {
                    (Some(c), _) => ChildEnd::Exit(c),
                    (None, Some(s)) => ChildEnd::Signal(s),
                    _ => ChildEnd::Exit(-1),
                }
            }
            Ok(None) => {}
            Err(_) => return ChildEnd::Exit(-1),
        }
        let cur = std::fs::read_to_string(hb).unwrap_or_default();
        if cur != last {
            last = cur;
            last_change = Instant::now();
        } else if last_change.elapsed() > Duration::from_secs(secs) {
            let _ = child.kill();
            let _ = child.wait();
            return ChildEnd::Watchdog;
        }
        std::thread::sleep(Duration::from_millis(100));
    }
}

/// Entry point of `ebv run <id> <tier>`.
pub fn supervise(prop: &Property, tier: Tier) -> i32 {
    let start = Instant::now();
    let seed = seed_from_env();
    let scratch = PathBuf::from(format!("/dev/shm/ebv-{}", std::process::id()));
    let _ = std::fs::remove_dir_all(&scratch);
    if std::fs::create_dir_all(&scratch).is_err() {
        println!("INCONCLUSIVE property={} cannot create scratch dir", prop.id);
        return 2;
    }
    let need_release = tier == Tier::Thorough || prop.subs.iter().any(|s| s.both_profiles_quick);
    let mut profiles = vec!["checked"];
    if need_release {
        profiles.push("release");
    }
    let mut reports: Vec<WorkerReport> = Vec::new();
    let mut failures: Vec<Failure> = Vec::new();
    let mut inconclusive: Option<String> = None;

    // Regression tier: saved minimal inputs of confirmed root causes, replayed strictly first.
    let reg_dir = harness_dir().join("../regressions").join(prop.id);
    let mut regressions_replayed = 0u64;
    if let Ok(rd) = std::fs::read_dir(&reg_dir) {
        let mut files: Vec<_> = rd.flatten().map(|e| e.path()).filter(|p| p.extension().map(|e| e == "json").unwrap_or(false)).collect();
        files.sort();
        for f in files {
            let mut c = Command::new(bin_for("checked"));
            c.arg("replay").arg(&f).arg("--quiet").stdin(Stdio::null()).stdout(Stdio::null()).stderr(Stdio::null());
            set_rlimit(&mut c, RLIMIT_AS_BYTES);
            regressions_replayed += 1;
            let bad = match c.status() {
                Ok(st) => st.signal().is_some() || st.code() == Some(1),
                Err(_) => false,
            };
            if bad {
                if let Ok(s) = std::fs::read_to_string(&f) {
                    if let Ok(v) = serde_json::from_str::<serde_json::Value>(&s) {
                        failures.push(Failure {
                            property: prop.id.to_string(),
                            subcheck: v["subcheck"].as_str().unwrap_or("?").to_string(),
                            profile: v["profile"].as_str().unwrap_or("checked").to_string(),
                            case: v["case"].clone(),
                            violation: Violation::new(
                                "regression",
                                format!("saved regression input {} fails again", f.display()),
                            ),
                            shrunk: true,
                        });
                    }
                }
            }
        }
    }

    for profile in profiles {
        let bin = bin_for(profile);
        if !bin.exists() {
            inconclusive = Some(format!("binary for profile {profile} missing: {}", bin.display()));
            break;
        }
        let out = scratch.join(format!("report-{profile}.json"));
        let crumbs = scratch.join(format!("crumbs-{profile}"));
        let _ = std::fs::create_dir_all(&crumbs);
        let hb = scratch.join(format!("hb-{profile}"));
        let mut cmd = Command::new(&bin);
        cmd.arg("worker")
            .arg(prop.id)
            .arg(tier.name())
            .arg(&out)
            .arg(&crumbs)
            .arg(&hb)
            .env("VERIF_SEED", (seed as i64).to_string())
            .stdin(Stdio::null())
            .stderr(Stdio::null());
        if profile == "release" && tier == Tier::Quick {
            cmd.arg("--only-both");
        }
        set_rlimit(&mut cmd, RLIMIT_AS_BYTES);
        let child = match cmd.spawn() {
            Ok(c) => c,
            Err(e) => {
                inconclusive = Some(format!("cannot spawn worker: {e}"));
                break;
            }
        };
        // C20's cases take milliseconds: a worker that makes no progress for 3 minutes is stuck (deadlock = liveness,
        // reported as inconclusive, never as a violation)
        let watchdog = match prop.id {
            "C20" => 180,
            "C02" => 300,
            _ => WATCHDOG_SECS,
        };
        match wait_with_watchdog(child, &hb, watchdog) {
            ChildEnd::Exit(0) => match std::fs::read_to_string(&out)
                .ok()
                .and_then(|s| serde_json::from_str::<WorkerReport>(&s).ok())
            {
                Some(r) => {
                    failures.extend(r.failures.iter().cloned());
                    reports.push(r);
                }
                None => inconclusive = Some(format!("worker ({profile}) wrote no report")),
            },
            ChildEnd::Exit(c) => inconclusive = Some(format!("worker ({profile}) exited with code {c}")),
            ChildEnd::Watchdog => {
                inconclusive = Some(format!("watchdog: no progress for {watchdog}s in worker ({profile}) - a case hangs or is far too slow"))
            }
            ChildEnd::Signal(sig) => {
                // Process death: find the case from the breadcrumbs by strict replay in fresh children.
                let mut found = false;
                if let Ok(rd) = std::fs::read_dir(&crumbs) {
                    let mut files: Vec<_> = rd.flatten().map(|e| e.path()).collect();
                    files.sort();
                    for f in files {
                        let mut c = Command::new(&bin);
                        c.arg("replay").arg(&f).arg("--quiet").stdin(Stdio::null()).stdout(Stdio::null()).stderr(Stdio::null());
                        set_rlimit(&mut c, RLIMIT_AS_BYTES);
                        let st = c.status();
                        let died = match st {
                            Ok(s) => s.signal().is_some() || s.code() == Some(1),
                            Err(_) => false,
                        };
                        if died {
                            if let Ok(s) = std::fs::read_to_string(&f) {
                                if let Ok(v) = serde_json::from_str::<serde_json::Value>(&s) {
                                    failures.push(Failure {
                                        property: prop.id.to_string(),
                                        subcheck: v["subcheck"].as_str().unwrap_or("?").to_string(),
                                        profile: profile.to_string(),
                                        case: v["case"].clone(),
                                        violation: Violation::new(
                                            format!("abort:signal{sig}"),
                                            format!("worker process died from signal {sig} while executing this case (unshrunk)"),
                                        ),
                                        shrunk: false,
                                    });
                                    found = true;
                                    break;
                                }
                            }
                        }
                    }
                }
                if !found && std::env::var("EBV_FORCE_CRUMBS").is_err() {
                    // The dying sub-check does not write breadcrumbs: run the worker once more (same seeds, so the
                    // same cases) with breadcrumbs forced for every sub-check, then look again.
                    let _ = std::fs::remove_dir_all(&crumbs);
                    let _ = std::fs::create_dir_all(&crumbs);
                    let mut again = Command::new(&bin);
                    again
                        .arg("worker")
                        .arg(prop.id)
                        .arg(tier.name())
                        .arg(&out)
                        .arg(&crumbs)
                        .arg(&hb)
                        .env("VERIF_SEED", (seed as i64).to_string())
                        .env("EBV_FORCE_CRUMBS", "1")
                        .stdin(Stdio::null())
                        .stderr(Stdio::null());
                    if profile == "release" && tier == Tier::Quick {
                        again.arg("--only-both");
                    }
                    set_rlimit(&mut again, RLIMIT_AS_BYTES);
                    if let Ok(child) = again.spawn() {
                        let _ = wait_with_watchdog(child, &hb, WATCHDOG_SECS);
                    }
                    if let Ok(rd) = std::fs::read_dir(&crumbs) {
                        let mut files: Vec<_> = rd.flatten().map(|e| e.path()).collect();
                        files.sort();
                        for f in files {
                            let mut c = Command::new(&bin);
                            c.arg("replay").arg(&f).arg("--quiet").stdin(Stdio::null()).stdout(Stdio::null()).stderr(Stdio::null());
                            set_rlimit(&mut c, RLIMIT_AS_BYTES);
                            let died = matches!(c.status(), Ok(s) if s.signal().is_some() || s.code() == Some(1));
                            if died {
                                if let Some(v) = std::fs::read_to_string(&f).ok().and_then(|s| serde_json::from_str::<serde_json::Value>(&s).ok()) {
                                    failures.push(Failure {
                                        property: prop.id.to_string(),
                                        subcheck: v["subcheck"].as_str().unwrap_or("?").to_string(),
                                        profile: profile.to_string(),
                                        case: v["case"].clone(),
                                        violation: Violation::new(
                                            format!("abort:signal{sig}"),
                                            format!("worker process died from signal {sig} while executing this case (unshrunk)"),
                                        ),
                                        shrunk: false,
                                    });
                                    found = true;
                                    break;
                                }
                            }
                        }
                    }
                }
                if !found {
                    failures.push(Failure {
                        property: prop.id.to_string(),
                        subcheck: "?".into(),
                        profile: profile.to_string(),
                        case: serde_json::Value::Null,
                        violation: Violation::new(
                            format!("abort:signal{sig}"),
                            format!("worker ({profile}) died from signal {sig}; no breadcrumb reproduced it"),
                        ),
                        shrunk: false,
                    });
                }
            }
        }
        if inconclusive.is_some() {
            break;
        }
    }

    // Coverage-guided campaigns (thorough tier only).
    let mut fuzz_info = Vec::new();
    if tier == Tier::Thorough && inconclusive.is_none() && std::env::var_os("EBV_DEV_SCALE_PCT").is_none() {
        for t in crate::fuzzing::TARGETS.iter().filter(|t| t.property == prop.id) {
            match run_fuzz_campaign(prop, t, seed, &scratch) {
                Ok((info, mut fails, report)) => {
                    fuzz_info.push(info);
                    failures.append(&mut fails);
                    if let Some(r) = report {
                        failures.extend(r.failures.iter().cloned());
                        reports.push(r);
                    }
                }
                Err(why) => {
                    inconclusive = Some(format!("fuzz campaign {}: {why}", t.name));
                    break;
                }
            }
        }
    }

    // Known findings: lines for every listed `known` entry of this property.
    let mut known_lines = Vec::new();
    let hit_keys: Vec<String> = reports.iter().flat_map(|r| r.known_hits.iter().cloned()).collect();
    let mut probe_hits: Vec<String> = Vec::new();
    for (sig, args) in (prop_probes)(prop.id) {
        // A probe is a resource-capped child process; death by signal or exit code 1 = reproduced.
        let mut c = Command::new(bin_for("checked"));
        c.arg("probe").args(&args).stdin(Stdio::null()).stdout(Stdio::null()).stderr(Stdio::null());
        set_rlimit(&mut c, 3 << 29);
        if let Ok(st) = c.status() {
            if st.signal().is_some() || st.code() == Some(1) || st.code() == Some(101) {
                probe_hits.push(format!("{}|{}", prop.id, sig));
            }
        }
    }
    for e in known::entries().iter().filter(|e| e.property == prop.id && e.status == "known") {
        let key = format!("{}|{}", e.property, e.signature);
        let seen = hit_keys.contains(&key) || probe_hits.contains(&key);
        let line = format!(
            "KNOWN-FINDING: property={} {} [{}]",
            prop.id,
            e.what,
            if seen { "reproduced in this run" } else { "not re-demonstrated in this run" }
        );
        println!("{line}");
        known_lines.push(line);
    }

    // Write replay files and VIOLATION lines.
    let fail_dir = harness_dir().join("../failures");
    let _ = std::fs::create_dir_all(&fail_dir);
    let mut n_viol = 0usize;
    for f in &failures {
        n_viol += 1;
        let h = super::case_hash(&f.case.to_string());
        let path = fail_dir.join(format!(
            "{}-{}-{:016x}.json",
            f.property,
            f.subcheck.replace(['/', ' '], "_"),
            h
        ));
        let path = path.canonicalize().unwrap_or_else(|_| {
            fail_dir
                .canonicalize()
                .unwrap_or(fail_dir.clone())
                .join(path.file_name().unwrap())
        });
        if let Ok(mut file) = std::fs::File::create(&path) {
            let _ = file.write_all(serde_json::to_string_pretty(f).unwrap().as_bytes());
        }
        println!(
            "VIOLATION property={} replay={}",
            f.property,
            path.display()
        );
        println!(
            "  subcheck={} profile={} signature={} shrunk={}\n  {}",
            f.subcheck,
            f.profile,
            f.violation.signature,
            f.shrunk,
            f.violation.message.replace('\n', "\n  ")
        );
    }

    let degenerate: Vec<String> = reports.iter().flat_map(|r| r.degenerate.iter().cloned()).collect();
    let wall = start.elapsed().as_secs_f64();
    let extra = serde_json::json!({
        "inconclusive": inconclusive,
        "generator_health_failures": degenerate,
        "regression_inputs_replayed": regressions_replayed,
        "fuzz_campaigns": fuzz_info,
    });
    if !reports.is_empty() {
        if let Err(e) = evidence::write(prop, tier, seed, &reports, extra, wall, n_viol, &known_lines) {
            eprintln!("cannot write evidence: {e}");
        }
    }
    let _ = std::fs::remove_dir_all(&scratch);

    let evals: u64 = reports.iter().flat_map(|r| r.per_sub.values()).map(|s| s.evaluations).sum();
    if n_viol > 0 {
        return 1;
    }
    if let Some(why) = inconclusive {
        println!("INCONCLUSIVE property={} {}", prop.id, why);
        return 2;
    }
    if !degenerate.is_empty() {
        for d in &degenerate {
            println!("INCONCLUSIVE property={} generator degenerate: {}", prop.id, d);
        }
        return 2;
    }
    println!(
        "OK property={} tier={} seed={} evaluations={} wall_s={:.1}",
        prop.id,
        tier.name(),
        seed as i64,
        evals,
        wall
    );
    0
}

/// Probes for known findings that cannot be searched safely in-process: (signature, probe args).
fn prop_probes(id: &str) -> Vec<(String, Vec<String>)> {
    crate::props::probes(id)
}

/// Entry point of `ebv worker ...`.
pub fn worker(prop: &Property, tier: Tier, out: &Path, crumbs: &Path, hb: &Path, only_both: bool) -> i32 {
    super::install_panic_hook();
    let hb = hb.to_path_buf();
    std::thread::spawn(move || loop {
        let n = super::PROGRESS.load(std::sync::atomic::Ordering::Relaxed);
        let _ = std::fs::write(&hb, n.to_string());
        std::thread::sleep(Duration::from_millis(500));
    });
    let cfg = RunCfg {
        property: prop.id,
        tier,
        seed: seed_from_env(),
        crumb_dir: Some(crumbs.to_path_buf()),
        strict: false,
        force_crumbs: std::env::var("EBV_FORCE_CRUMBS").is_ok(),
    };
    let report = super::run_property_in_process(prop, &cfg, only_both);
    match std::fs::write(out, serde_json::to_string(&report).unwrap()) {
        Ok(()) => 0,
        Err(_) => 3,
    }
}

/// Entry point of `ebv replay <file>`: strict (no known-finding suppression).
pub fn replay(path: &Path, quiet: bool) -> i32 {
    super::install_panic_hook();
    let Ok(s) = std::fs::read_to_string(path) else {
        println!("cannot read {}", path.display());
        return 2;
    };
    let Ok(v) = serde_json::from_str::<serde_json::Value>(&s) else {
        println!("cannot parse {}", path.display());
        return 2;
    };
    let pid = v["property"].as_str().unwrap_or("");
    let sub = v["subcheck"].as_str().unwrap_or("");
    let profile = v["profile"].as_str().unwrap_or("checked");
    if profile != super::profile_name() {
        let bin = bin_for(profile);
        if bin.exists() {
            let mut c = Command::new(bin);
            c.arg("replay").arg(path);
            if quiet {
                c.arg("--quiet");
            }
            return match c.status() {
                Ok(st) => st.code().unwrap_or(1),
                Err(_) => 2,
            };
        }
    }
    let Some(prop) = crate::props::property(pid) else {
        println!("unknown property {pid}");
        return 2;
    };
    let Some(sc) = prop.subs.iter().find(|s| s.name == sub) else {
        println!("unknown sub-check {sub}");
        return 2;
    };
    match sc.runner.replay(&v["case"]) {
        Err(e) => {
            println!("cannot decode case: {e}");
            2
        }
        Ok(Ok(())) => {
            if !quiet {
                println!("PASS property={pid} subcheck={sub}: no violation on replay");
            }
            0
        }
        Ok(Err(viol)) => {
            let p = path.canonicalize().unwrap_or(path.to_path_buf());
            println!("VIOLATION property={} replay={}", pid, p.display());
            if !quiet {
                println!("  signature={}\n  {}", viol.signature, viol.message.replace('\n', "\n  "));
            }
            1
        }
    }
}

/// Runs one libFuzzer campaign (8 jobs, fixed number of runs, seeded) and replays the resulting corpus through
/// the stable release binary. Returns (info for the evidence, failures from crash artifacts, corpus report).
fn run_fuzz_campaign(
    prop: &Property,
    t: &crate::fuzzing::FuzzTarget,
    seed: u64,
    scratch: &Path,
) -> Result<(serde_json::Value, Vec<Failure>, Option<WorkerReport>), String> {
    let dir = scratch.join(format!("fuzz-{}", t.name));
    let corpus = dir.join("corpus");
    let arts = dir.join("artifacts");
    std::fs::create_dir_all(&corpus).map_err(|e| e.to_string())?;
    std::fs::create_dir_all(&arts).map_err(|e| e.to_string())?;
    let fuzz_dir = harness_dir().join("../fuzz");
    let seeds = fuzz_dir.join("seeds").join(t.name);
    let mut n_seeds = 0;
    if let Ok(rd) = std::fs::read_dir(&seeds) {
        for e in rd.flatten() {
            if std::fs::copy(e.path(), corpus.join(e.file_name())).is_ok() {
                n_seeds += 1;
            }
        }
    }
    let jobs = 8;
    let start = Instant::now();
    let log = std::fs::File::create(dir.join("campaign.log")).map_err(|e| e.to_string())?;
    let log2 = log.try_clone().map_err(|e| e.to_string())?;
    let status = Command::new("cargo")
        .current_dir(&dir)
        .env("CARGO_NET_OFFLINE", "true")
        // eight fuzz processes each with a 16-thread rayon pool only get in each other's way
        .env("RAYON_NUM_THREADS", "2")
        .args(["+nightly", "fuzz", "run", "--fuzz-dir"])
        .arg(&fuzz_dir)
        .arg(t.name)
        .arg(&corpus)
        .arg("--")
        .arg(format!("-runs={}", t.runs_per_job))
        .arg(format!("-seed={}", (seed % 1_000_000) + 1))
        .arg(format!("-max_len={}", t.max_len))
        .arg("-len_control=0")
        // fixed work; the wall-clock cap only keeps a campaign on an overloaded machine from running for hours
        // (hitting it means less was explored, nothing else)
        .arg("-max_total_time=600")
        .arg(format!("-jobs={jobs}"))
        .arg(format!("-workers={jobs}"))
        .arg(format!("-artifact_prefix={}/", arts.display()))
        .stdin(Stdio::null())
        .stdout(log)
        .stderr(log2)
        .status()
        .map_err(|e| format!("cannot start cargo fuzz: {e}"))?;
    let mut fails = Vec::new();
    let mut n_art = 0;
    if let Ok(rd) = std::fs::read_dir(&arts) {
        for e in rd.flatten() {
            let name = e.file_name().to_string_lossy().to_string();
            if !(name.starts_with("crash-") || name.starts_with("oom-") || name.starts_with("timeout-")) {
                continue;
            }
            n_art += 1;
            if name.starts_with("timeout-") {
                continue; // a slow unit is not a violation
            }
            if let Ok(bytes) = std::fs::read(e.path()) {
                if fails.len() < 3 {
                    fails.push(Failure {
                        property: prop.id.to_string(),
                        subcheck: format!("fuzz.{}", t.name),
                        profile: "checked".to_string(),
                        case: serde_json::to_value(crate::fuzzing::FuzzBytes(bytes)).unwrap_or_default(),
                        violation: Violation::new(
                            format!("fuzz:{}", name.split('-').next().unwrap_or("crash")),
                            format!("libFuzzer target {} stopped on this input ({name}); replay gives the oracle's message (unshrunk)", t.name),
                        ),
                        shrunk: false,
                    });
                }
            }
        }
    }
    if !status.success() && n_art == 0 {
        let tail = std::fs::read_to_string(dir.join("campaign.log")).unwrap_or_default();
        let tail: String = tail.lines().rev().take(8).collect::<Vec<_>>().into_iter().rev().collect::<Vec<_>>().join(" | ");
        return Err(format!("cargo fuzz exited with {status} without an artifact: {tail}"));
    }
    // replay the corpus through the release binary (overflow-unchecked configuration + evidence numbers)
    let out = dir.join("corpus-report.json");
    let mut c = Command::new(bin_for("release"));
    c.arg("fuzz-corpus").arg(prop.id).arg(t.name).arg(&corpus).arg(&out).stdin(Stdio::null()).stderr(Stdio::null());
    set_rlimit(&mut c, RLIMIT_AS_BYTES);
    let report = match c.status() {
        Ok(st) if st.success() => std::fs::read_to_string(&out).ok().and_then(|s| serde_json::from_str::<WorkerReport>(&s).ok()),
        Ok(st) if st.signal().is_some() => {
            fails.push(Failure {
                property: prop.id.to_string(),
                subcheck: format!("fuzz.{}", t.name),
                profile: "release".to_string(),
                case: serde_json::Value::Null,
                violation: Violation::new("abort:corpus-replay", format!("replaying the {} corpus in the release build died from signal {:?}", t.name, st.signal())),
                shrunk: false,
            });
            None
        }
        _ => None,
    };
    let corpus_size = std::fs::read_dir(&corpus).map(|r| r.count()).unwrap_or(0);
    let info = serde_json::json!({
        "target": t.name,
        "jobs": jobs,
        "runs_per_job": t.runs_per_job,
        "executions": t.runs_per_job * jobs as u64,
        "seed_inputs": n_seeds,
        "corpus_units_after": corpus_size,
        "artifacts": n_art,
        "wall_s": start.elapsed().as_secs_f64(),
    });
    Ok((info, fails, report))
}

/// `ebv fuzz-corpus <prop> <target> <dir> <out>`: run the target's oracle over every file of a corpus directory.
pub fn fuzz_corpus(prop_id: &str, target: &str, dir: &Path, out: &Path) -> i32 {
    super::install_panic_hook();
    let mut stats = super::Stats::default();
    let mut failures = Vec::new();
    let name = format!("fuzz.{target}:corpus");
    if let Ok(rd) = std::fs::read_dir(dir) {
        let mut files: Vec<_> = rd.flatten().map(|e| e.path()).collect();
        files.sort();
        for f in files {
            let Ok(bytes) = std::fs::read(&f) else { continue };
            let mut obs = super::Obs::default();
            let r = match super::no_panic("fuzz oracle", || crate::fuzzing::entry(target, &bytes, &mut obs)) {
                Ok(r) => r,
                Err(v) => Err(v),
            };
            stats.cases += 1;
            stats.evaluations += 1;
            for l in &obs.labels {
                *stats.labels.entry((*l).to_string()).or_default() += 1;
            }
            if obs.nontrivial && obs.skipped.is_none() {
                stats.nontrivial += 1;
                stats.distinct.insert(super::case_hash(&bytes));
                if stats.samples.len() < 2 {
                    stats.samples.push(format!("{:02x?}", &bytes[..bytes.len().min(80)]));
                }
            }
            if let Err(v) = r {
                if !known::is_known(prop_id, &v) && failures.len() < 3 {
                    failures.push(Failure {
                        property: prop_id.to_string(),
                        subcheck: format!("fuzz.{target}"),
                        profile: super::profile_name().to_string(),
                        case: serde_json::to_value(crate::fuzzing::FuzzBytes(bytes.clone())).unwrap_or_default(),
                        violation: v,
                        shrunk: false,
                    });
                }
            }
        }
    }
    stats.distinct_count = stats.distinct.len() as u64;
    let mut report = WorkerReport {
        profile: format!("{}(fuzz-corpus)", super::profile_name()),
        ..Default::default()
    };
    report.distinct_hashes.insert(name.clone(), stats.distinct.iter().copied().collect());
    report.per_sub.insert(name, stats);
    report.failures = failures;
    match std::fs::write(out, serde_json::to_string(&report).unwrap()) {
        Ok(()) => 0,
        Err(_) => 3,
    }
}
