//! Supervisor / worker split (DESIGN §2.5): the check runs its cases in child processes so that
//! aborts (allocation failure, stack overflow) are observed as violations and hangs as "inconclusive".

use super::{evidence, known, Failure, Property, RunCfg, Tier, Violation, WorkerReport};
use std::io::Write;
use std::os::unix::process::{CommandExt, ExitStatusExt};
use std::path::{Path, PathBuf};
use std::process::{Command, Stdio};
use std::time::{Duration, Instant};

pub const WATCHDOG_SECS: u64 = 900;
pub const RLIMIT_AS_BYTES: u64 = 24 << 30;

pub fn seed_from_env() -> u64 {
    std::env::var("VERIF_SEED")
        .ok()
        .and_then(|s| s.trim().parse::<i128>().ok())
        .map(|v| v as u64)
        .unwrap_or(0)
}

fn harness_dir() -> PathBuf {
    PathBuf::from(env!("CARGO_MANIFEST_DIR"))
}

pub fn bin_for(profile: &str) -> PathBuf {
    harness_dir().join("target").join(profile).join("ebv")
}

fn set_rlimit(cmd: &mut Command, bytes: u64) {
    unsafe {
        cmd.pre_exec(move || {
            let lim = libc::rlimit {
                rlim_cur: bytes,
                rlim_max: bytes,
            };
            libc::setrlimit(libc::RLIMIT_AS, &lim);
            // No core dumps.
            let z = libc::rlimit { rlim_cur: 0, rlim_max: 0 };
            libc::setrlimit(libc::RLIMIT_CORE, &z);
            Ok(())
        });
    }
}

enum ChildEnd {
    Exit(i32),
    Signal(i32),
    Watchdog,
}

fn wait_with_watchdog(mut child: std::process::Child, hb: &Path, secs: u64) -> ChildEnd {
    let mut last = String::new();
    let mut last_change = Instant::now();
    loop {
        match child.try_wait() {
            Ok(Some(st)) => {
                return match (st.code(), st.signal()) {
                    (Some(c), _) => ChildEnd::Exit(c),
                    (None, Some(s)) => ChildEnd::Signal(s),
                    _ => ChildEnd::Exit(-1),
                }
            }
            Ok(None) => {}
            Err(_) => return ChildEnd::Exit(-1),
        }
        let cur = std::fs::read_to_string(hb).unwrap_or_default();
        if cur != last {
            last = cur;
            last_change = Instant::now();
        } else if last_change.elapsed() > Duration::from_secs(secs) {
            let _ = child.kill();
            let _ = child.wait();
            return ChildEnd::Watchdog;
        }
        std::thread::sleep(Duration::from_millis(100));
    }
}

/// Entry point of `ebv run <id> <tier>`.
pub fn supervise(prop: &Property, tier: Tier) -> i32 {
    let start = Instant::now();
    let seed = seed_from_env();
    let scratch = PathBuf::from(format!("/dev/shm/ebv-{}", std::process::id()));
    let _ = std::fs::remove_dir_all(&scratch);
    if std::fs::create_dir_all(&scratch).is_err() {
        println!("INCONCLUSIVE property={} cannot create scratch dir", prop.id);
        return 2;
    }
    let need_release = tier == Tier::Thorough || prop.subs.iter().any(|s| s.both_profiles_quick);
    let mut profiles = vec!["checked"];
    if need_release {
        profiles.push("release");
    }
    let mut reports: Vec<WorkerReport> = Vec::new();
    let mut failures: Vec<Failure> = Vec::new();
    let mut inconclusive: Option<String> = None;

    // Regression tier: saved minimal inputs of confirmed root causes, replayed strictly first.
    let reg_dir = harness_dir().join("../regressions").join(prop.id);
    let mut regressions_replayed = 0u64;
    if let Ok(rd) = std::fs::read_dir(&reg_dir) {
        let mut files: Vec<_> = rd.flatten().map(|e| e.path()).filter(|p| p.extension().map(|e| e == "json").unwrap_or(false)).collect();
        files.sort();
        for f in files {
            let mut c = Command::new(bin_for("checked"));
            c.arg("replay").arg(&f).arg("--quiet").stdin(Stdio::null()).stdout(Stdio::null()).stderr(Stdio::null());
            set_rlimit(&mut c, RLIMIT_AS_BYTES);
            regressions_replayed += 1;
            let bad = match c.status() {
                Ok(st) => st.signal().is_some() || st.code() == Some(1),
                Err(_) => false,
            };
            if bad {
                if let Ok(s) = std::fs::read_to_string(&f) {
                    if let Ok(v) = serde_json::from_str::<serde_json::Value>(&s) {
                        failures.push(Failure {
                            property: prop.id.to_string(),
                            subcheck: v["subcheck"].as_str().unwrap_or("?").to_string(),
                            profile: v["profile"].as_str().unwrap_or("checked").to_string(),
                            case: v["case"].clone(),
                            violation: Violation::new(
                                "regression",
                                format!("saved regression input {} fails again", f.display()),
                            ),
                            shrunk: true,
                        });
                    }
                }
            }
        }
    }

    for profile in profiles {
        let bin = bin_for(profile);
        if !bin.exists() {
            inconclusive = Some(format!("binary for profile {profile} missing: {}", bin.display()));
            break;
        }
        let out = scratch.join(format!("report-{profile}.json"));
        let crumbs = scratch.join(format!("crumbs-{profile}"));
        let _ = std::fs::create_dir_all(&crumbs);
        let hb = scratch.join(format!("hb-{profile}"));
        let mut cmd = Command::new(&bin);
        cmd.arg("worker")
            .arg(prop.id)
            .arg(tier.name())
            .arg(&out)
            .arg(&crumbs)
            .arg(&hb)
            .env("VERIF_SEED", (seed as i64).to_string())
            .stdin(Stdio::null())
            .stderr(Stdio::null());
        if profile == "release" && tier == Tier::Quick {
            cmd.arg("--only-both");
        }
        set_rlimit(&mut cmd, RLIMIT_AS_BYTES);
        let child = match cmd.spawn() {
            Ok(c) => c,
            Err(e) => {
                inconclusive = Some(format!("cannot spawn worker: {e}"));
                break;
            }
        };
        match wait_with_watchdog(child, &hb, WATCHDOG_SECS) {
            ChildEnd::Exit(0) => match std::fs::read_to_string(&out)
                .ok()
                .and_then(|s| serde_json::from_str::<WorkerReport>(&s).ok())
            {
                Some(r) => {
                    failures.extend(r.failures.iter().cloned());
                    reports.push(r);
                }
                None => inconclusive = Some(format!("worker ({profile}) wrote no report")),
            },
            ChildEnd::Exit(c) => inconclusive = Some(format!("worker ({profile}) exited with code {c}")),
            ChildEnd::Watchdog => {
                inconclusive = Some(format!("watchdog: no progress for {WATCHDOG_SECS}s in worker ({profile})"))
            }
            ChildEnd::Signal(sig) => {
                // Process death: find the case from the breadcrumbs by strict replay in fresh children.
                let mut found = false;
                if let Ok(rd) = std::fs::read_dir(&crumbs) {
                    let mut files: Vec<_> = rd.flatten().map(|e| e.path()).collect();
                    files.sort();
                    for f in files {
                        let mut c = Command::new(&bin);
                        c.arg("replay").arg(&f).arg("--quiet").stdin(Stdio::null()).stdout(Stdio::null()).stderr(Stdio::null());
                        set_rlimit(&mut c, RLIMIT_AS_BYTES);
                        let st = c.status();
                        let died = match st {
                            Ok(s) => s.signal().is_some() || s.code() == Some(1),
                            Err(_) => false,
                        };
                        if died {
                            if let Ok(s) = std::fs::read_to_string(&f) {
                                if let Ok(v) = serde_json::from_str::<serde_json::Value>(&s) {
                                    failures.push(Failure {
                                        property: prop.id.to_string(),
                                        subcheck: v["subcheck"].as_str().unwrap_or("?").to_string(),
                                        profile: profile.to_string(),
                                        case: v["case"].clone(),
                                        violation: Violation::new(
                                            format!("abort:signal{sig}"),
                                            format!("worker process died from signal {sig} while executing this case (unshrunk)"),
                                        ),
                                        shrunk: false,
                                    });
                                    found = true;
                                    break;
                                }
                            }
                        }
                    }
                }
                if !found {
                    failures.push(Failure {
                        property: prop.id.to_string(),
                        subcheck: "?".into(),
                        profile: profile.to_string(),
                        case: serde_json::Value::Null,
                        violation: Violation::new(
                            format!("abort:signal{sig}"),
                            format!("worker ({profile}) died from signal {sig}; no breadcrumb reproduced it"),
                        ),
                        shrunk: false,
                    });
                }
            }
        }
        if inconclusive.is_some() {
            break;
        }
    }

    // Known findings: lines for every listed `known` entry of this property.
    let mut known_lines = Vec::new();
    let hit_keys: Vec<String> = reports.iter().flat_map(|r| r.known_hits.iter().cloned()).collect();
    let mut probe_hits: Vec<String> = Vec::new();
    for (sig, args) in (prop_probes)(prop.id) {
        // A probe is a resource-capped child process; death by signal or exit code 1 = reproduced.
        let mut c = Command::new(bin_for("checked"));
        c.arg("probe").args(&args).stdin(Stdio::null()).stdout(Stdio::null()).stderr(Stdio::null());
        set_rlimit(&mut c, 3 << 29);
        if let Ok(st) = c.status() {
            if st.signal().is_some() || st.code() == Some(1) || st.code() == Some(101) {
                probe_hits.push(format!("{}|{}", prop.id, sig));
            }
        }
    }
    for e in known::entries().iter().filter(|e| e.property == prop.id && e.status == "known") {
        let key = format!("{}|{}", e.property, e.signature);
        let seen = hit_keys.contains(&key) || probe_hits.contains(&key);
        let line = format!(
            "KNOWN-FINDING: property={} {} [{}]",
            prop.id,
            e.what,
            if seen { "reproduced in this run" } else { "not re-demonstrated in this run" }
        );
        println!("{line}");
        known_lines.push(line);
    }

    // Write replay files and VIOLATION lines.
    let fail_dir = harness_dir().join("../failures");
    let _ = std::fs::create_dir_all(&fail_dir);
    let mut n_viol = 0usize;
    for f in &failures {
        n_viol += 1;
        let h = super::case_hash(&f.case.to_string());
        let path = fail_dir.join(format!(
            "{}-{}-{:016x}.json",
            f.property,
            f.subcheck.replace(['/', ' '], "_"),
            h
        ));
        let path = path.canonicalize().unwrap_or_else(|_| {
            fail_dir
                .canonicalize()
                .unwrap_or(fail_dir.clone())
                .join(path.file_name().unwrap())
        });
        if let Ok(mut file) = std::fs::File::create(&path) {
            let _ = file.write_all(serde_json::to_string_pretty(f).unwrap().as_bytes());
        }
        println!(
            "VIOLATION property={} replay={}",
            f.property,
            path.display()
        );
        println!(
            "  subcheck={} profile={} signature={} shrunk={}\n  {}",
            f.subcheck,
            f.profile,
            f.violation.signature,
            f.shrunk,
            f.violation.message.replace('\n', "\n  ")
        );
    }

    let degenerate: Vec<String> = reports.iter().flat_map(|r| r.degenerate.iter().cloned()).collect();
    let wall = start.elapsed().as_secs_f64();
    let extra = serde_json::json!({
        "inconclusive": inconclusive,
        "generator_health_failures": degenerate,
        "regression_inputs_replayed": regressions_replayed,
    });
    if !reports.is_empty() {
        if let Err(e) = evidence::write(prop, tier, seed, &reports, extra, wall, n_viol, &known_lines) {
            eprintln!("cannot write evidence: {e}");
        }
    }
    let _ = std::fs::remove_dir_all(&scratch);

    let evals: u64 = reports.iter().flat_map(|r| r.per_sub.values()).map(|s| s.evaluations).sum();
    if n_viol > 0 {
        return 1;
    }
    if let Some(why) = inconclusive {
        println!("INCONCLUSIVE property={} {}", prop.id, why);
        return 2;
    }
    if !degenerate.is_empty() {
        for d in &degenerate {
            println!("INCONCLUSIVE property={} generator degenerate: {}", prop.id, d);
        }
        return 2;
    }
    println!(
        "OK property={} tier={} seed={} evaluations={} wall_s={:.1}",
        prop.id,
        tier.name(),
        seed as i64,
        evals,
        wall
    );
    0
}

/// Probes for known findings that cannot be searched safely in-process: (signature, probe args).
fn prop_probes(id: &str) -> Vec<(String, Vec<String>)> {
    crate::props::probes(id)
}

/// Entry point of `ebv worker ...`.
pub fn worker(prop: &Property, tier: Tier, out: &Path, crumbs: &Path, hb: &Path, only_both: bool) -> i32 {
    super::install_panic_hook();
    let hb = hb.to_path_buf();
    std::thread::spawn(move || loop {
        let n = super::PROGRESS.load(std::sync::atomic::Ordering::Relaxed);
        let _ = std::fs::write(&hb, n.to_string());
        std::thread::sleep(Duration::from_millis(500));
    });
    let cfg = RunCfg {
        property: prop.id,
        tier,
        seed: seed_from_env(),
        crumb_dir: Some(crumbs.to_path_buf()),
        strict: false,
    };
    let report = super::run_property_in_process(prop, &cfg, only_both);
    match std::fs::write(out, serde_json::to_string(&report).unwrap()) {
        Ok(()) => 0,
        Err(_) => 3,
    }
}

/// Entry point of `ebv replay <file>`: strict (no known-finding suppression).
pub fn replay(path: &Path, quiet: bool) -> i32 {
    super::install_panic_hook();
    let Ok(s) = std::fs::read_to_string(path) else {
        println!("cannot read {}", path.display());
        return 2;
    };
    let Ok(v) = serde_json::from_str::<serde_json::Value>(&s) else {
        println!("cannot parse {}", path.display());
        return 2;
    };
    let pid = v["property"].as_str().unwrap_or("");
    let sub = v["subcheck"].as_str().unwrap_or("");
    let profile = v["profile"].as_str().unwrap_or("checked");
    if profile != super::profile_name() {
        let bin = bin_for(profile);
        if bin.exists() {
            let mut c = Command::new(bin);
            c.arg("replay").arg(path);
            if quiet {
                c.arg("--quiet");
            }
            return match c.status() {
                Ok(st) => st.code().unwrap_or(1),
                Err(_) => 2,
            };
        }
    }
    let Some(prop) = crate::props::property(pid) else {
        println!("unknown property {pid}");
        return 2;
    };
    let Some(sc) = prop.subs.iter().find(|s| s.name == sub) else {
        println!("unknown sub-check {sub}");
        return 2;
    };
    match sc.runner.replay(&v["case"]) {
        Err(e) => {
            println!("cannot decode case: {e}");
            2
        }
        Ok(Ok(())) => {
            if !quiet {
                println!("PASS property={pid} subcheck={sub}: no violation on replay");
            }
            0
        }
        Ok(Err(viol)) => {
            let p = path.canonicalize().unwrap_or(path.to_path_buf());
            println!("VIOLATION property={} replay={}", pid, p.display());
            if !quiet {
                println!("  signature={}\n  {}", viol.signature, viol.message.replace('\n', "\n  "));
            }
            1
        }
    }
}
