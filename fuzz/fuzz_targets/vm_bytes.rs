#![no_main]
use libfuzzer_sys::fuzz_target;
fuzz_target!(|data: &[u8]| {
    ebv::fuzzing::fuzz_main("vm_bytes", data);
});
